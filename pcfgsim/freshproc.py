"""One quit/resume cycle in a *fresh interpreter*.

The in-process histories of C08/C15 re-enter ``pcfg_guesser.main()`` in the same interpreter (fresh grammar, queue,
session and optimizer objects, but the same imported modules, the same string-hash seed, the same pickle class
identities).  A user's resume is a new process.  This runner executes exactly the same cycle -- same harness, same
scripted quit point, same seams -- in a child interpreter started with its own PYTHONHASHSEED, on the same scratch disk,
and hands back what the oracle needs.  Only the save files cross the process boundary, as in real use.
"""

import json
import os
import subprocess
import sys
import types

from . import scratch

HERE = os.path.dirname(os.path.dirname(os.path.abspath(__file__)))

_CHILD = r"""
import json, sys
sys.path.insert(0, %(here)r)
sys.dont_write_bytecode = True
import warnings
warnings.filterwarnings("ignore")
from pcfgsim import scratch, session
scratch.attach(%(root)r, %(code)r, %(wroot)r)
import pcfg_guesser
session.install()
job = json.loads(sys.stdin.read())
ctx = session.SessionCtx(trigger=tuple(job["trigger"]) if job["trigger"] else None, knobs=job["knobs"])
r = session.run_main(job["argv"], ctx)
E = session.emitted_preterminals(ctx)
ends = [e["first_line"] for e in E[1:]] + [ctx.nlines]
for e, end in zip(E, ends):
    e["lines"] = ctx.guesses[e["first_line"]:end]
rem = []
for call in ctx.restore_omen_calls:
    rem.extend(ctx.guesses[call[1]:call[2] if call[2] is not None else ctx.nlines])
out = {"exc": r.exc, "exit_code": r.exit_code if isinstance(r.exit_code, (int, type(None))) else repr(r.exit_code),
       "lines": r.lines, "guesses": ctx.guesses, "emitted": E, "remainder": rem, "fired": ctx.fired, "fired_in": ctx.fired_in,
       "fired_at": ctx.fired_at, "pops": [None if p is None else {"prob": p["prob"], "base_prob": p["base_prob"], "pt": p["pt"]}
                                          for p in ctx.pops],
       "clock": ctx.clock.now, "restore_omen_calls": ctx.restore_omen_calls, "restore_calls": ctx.restore_calls}
sys.__stdout__.write(json.dumps(out))
"""


def session_defaults():
    from . import session
    return {k: v for k, v in session.DEFAULT_KNOBS.items() if v is not None}


class FreshProcessError(Exception):
    """the child interpreter itself failed (harness error, not a verdict)"""


def run_cycle(argv, trigger, knobs, hash_seed, timeout=300):
    root = os.path.dirname(scratch.code_dir())
    code = _CHILD % {"here": HERE, "root": root, "code": scratch.code_dir(), "wroot": scratch.worker_root()}
    env = dict(os.environ, PYTHONHASHSEED=str(hash_seed), PYTHONUTF8="1")
    p = subprocess.run([sys.executable, "-W", "ignore", "-c", code], input=json.dumps(
        {"argv": list(argv), "trigger": list(trigger) if trigger else None, "knobs": dict(session_defaults(), **(knobs or {}))}),
        capture_output=True, text=True, env=env, timeout=timeout)
    if p.returncode != 0 or not p.stdout.startswith("{"):
        raise FreshProcessError("child interpreter failed (rc %s): %s" % (p.returncode, p.stderr[-1500:]))
    d = json.loads(p.stdout)
    r = types.SimpleNamespace()
    ctx = types.SimpleNamespace()
    r.exc = d["exc"]
    r.exit_code = d["exit_code"]
    r.lines = d["lines"]
    r.stdout = "".join(l + "\n" for l in d["lines"])
    r.remainder = d["remainder"]
    r.emitted = []
    for e in d["emitted"]:
        e["pt"] = tuple(tuple(x) for x in e["pt"])
        r.emitted.append(e)
    ctx.guesses = d["guesses"]
    ctx.nlines = len(d["guesses"])
    ctx.fired = d["fired"]
    ctx.fired_in = d["fired_in"]
    ctx.fired_at = tuple(d["fired_at"]) if d["fired_at"] else None
    ctx.pops = d["pops"]
    ctx.expansions = [(e["pt"], e["first_line"], e["ret"]) for e in r.emitted]
    ctx.restore_omen_calls = d["restore_omen_calls"]
    ctx.restore_calls = d["restore_calls"]
    ctx.clock = types.SimpleNamespace(now=d["clock"])
    ctx.hash_seed = hash_seed
    r.ctx = ctx
    return r
