"""In-process harness around the repository's guesser (real loader, real
priority queue, real expansion); only stdout/stderr are swapped for recorders.
"""

import contextlib
import sys


class LineRecorder:
    """stdout stand-in: records everything written, hands out whole lines"""

    encoding = "utf-8"

    def __init__(self):
        self.parts = []
        self.on_line = None
        self.fail_after = None     # EPIPE injection: raise once this many lines were written
        self.nlines = 0

    def write(self, s):
        if self.fail_after is not None and self.nlines >= self.fail_after:
            raise BrokenPipeError(32, "Broken pipe")
        self.parts.append(s)
        if s.endswith("\n"):
            self.nlines += s.count("\n")
            if self.on_line is not None:
                self.on_line(self.nlines)
        return len(s)

    def flush(self):
        pass

    def isatty(self):
        return False

    def text(self):
        return "".join(self.parts)

    def take(self):
        t = "".join(self.parts)
        self.parts = []
        return t


class Sink:
    encoding = "utf-8"

    def __init__(self, keep=False):
        self.keep = keep
        self.parts = []

    def write(self, s):
        if self.keep:
            self.parts.append(s)
        return len(s)

    def flush(self):
        pass

    def isatty(self):
        return False

    def text(self):
        return "".join(self.parts)


class KbdFaultySink(Sink):
    """stderr stand-in that fails for every thread but the one that created it (the reader of the status channel went away:
    a status or help report cannot be written; the main thread's own messages are not touched)"""

    def __init__(self, err_no, after=0):
        Sink.__init__(self)
        import threading
        self._owner = threading.get_ident()
        self.err_no = err_no
        self.after = after
        self.calls = 0
        self.fired = 0

    def write(self, s):
        import threading
        if threading.get_ident() != self._owner:
            self.calls += 1
            if self.calls > self.after:
                self.fired += 1
                import os
                raise OSError(self.err_no, os.strerror(self.err_no))
        return len(s)


@contextlib.contextmanager
def streams(out=None, err=None):
    old = sys.stdout, sys.stderr
    sys.stdout = out if out is not None else Sink()
    sys.stderr = err if err is not None else Sink()
    try:
        yield sys.stdout, sys.stderr
    finally:
        sys.stdout, sys.stderr = old


def split_lines(text):
    """lines as a consumer of the pipe sees them (LF terminated)"""
    if not text:
        return []
    parts = text.split("\n")
    if parts[-1] == "":
        parts.pop()
    return parts


def load(rule_dir, skip_brute=False, skip_case=False, folder="Grammar", save_file=None, name="R"):
    from lib_guesser.pcfg_grammar import PcfgGrammar
    return PcfgGrammar(name, rule_dir, "4.7", save_file, skip_brute=skip_brute,
                       skip_case=skip_case, base_structure_folder=folder)


def exhaust(pcfg, max_pops=100000, inspect=None, expand=True, save_config=None, queue_size=None):
    """Real PcfgQueue.next() until None.  Returns list of pops:
    {'pt': tuple, 'prob', 'base_prob', 'lines': [...], 'ret': n}"""
    from lib_guesser.priority_queue import PcfgQueue
    q = PcfgQueue(pcfg, save_config) if save_config is not None else PcfgQueue(pcfg)
    if queue_size:
        q.max_queue_size = queue_size       # tuning knob of the class (see session.draw_queue_knob)
    hist = []
    rec = sys.stdout if isinstance(sys.stdout, LineRecorder) else None
    while len(hist) < max_pops:
        item = q.next()
        if item is None:
            break
        entry = {"pt": tuple(tuple(x) for x in item["pt"]), "prob": item["prob"],
                 "base_prob": item["base_prob"]}
        if expand:
            if rec is not None:
                rec.take()
            entry["ret"] = pcfg.create_guesses(item["pt"])
            if rec is not None:
                entry["text"] = rec.take()
        hist.append(entry)
        if inspect is not None:
            inspect(q, entry, len(hist))
    else:
        hist.append({"overflow": True})
    return hist
