"""In-process harness around the repository's trainer plus the W-train world generator.

Real: TrainerFileInput, the three passes of run_trainer, every detector, the OMEN
trainer, all savers.  Seams (installed from outside): ``config_file.uuid`` (seeded),
observation wrappers that record what the parser produced and the live OMEN trainer.
"""

import os
import uuid as _uuid

from . import guesser, scratch

WORDS = ["password", "monkey", "dragon", "love", "abc", "iloveyou", "cat", "a", "test", "shadow", "blue", "pass"]
CAPWORDS = ["Password", "MONKEY", "dRagon", "LoVe", "Abc", "TEST", "passWORD"]
NONASCII = ["пароль", "λόγος", "señor", "é", "über", "ñandú", "мир", "Привет", "\u0393amma", "\u0398eta", "\u03a9mega", "P\u0393x", "\u01c4amija", "\u01c7ubav", "\u01caegos", "\u01f1eta",
            "\u1c9e\u10d0\u10e0\u10dd\u10da\u10d8", "\u1c9b\u10d4",
            # spellings that are not in Unicode normal form C (a macOS export, a compatibility code point): the trainer
            # and the guesser work on code points, so these are passwords of their own
            "cafe\u0301", "\u1112\u1161\u11ab\u1100\u1173\u11af", "\u1f71\u03bb\u03c6\u03b1", "\uf900\uf901\u8c48\u66f4",
            "pass\u037e", "a\u0387b", "\u1100\u1161\u1102\u1161", "\u03b1\u0301\u03bb\u03c6\u03b1"]
DIGS = ["1", "12", "123", "1234", "2019", "1987", "007", "0", "99", "2000", "19", "20191"]
SYMS = ["!", "!!", "@", "#", "$$", ".", "-", "_", " ", "  ", "?!"]
CASED_SYMBOLS = ["Ⓐ", "Ⓩ", "Ⅷ", "Ⅻ", "ⓐ", "ⅷ", "★", "②"]     # circled capitals / Roman numerals: not letters, yet str.lower() changes them
WALKS = ["1qaz", "qwer", "asdf", "zaq1", "1q2w3e", "qwerty", "1qaz2wsx", "asdfgh"]
CONTEXT = ["<3", ";p", "#1", "*0*", ":)"]
EMAILS = ["bob@gmail.com", "alice@yahoo.com", "x@y.org", "bob@yahoo.com.au", "dave@web.com.usa", "me@mail.ru.com"]
SITES = ["www.google.com", "http://a.net", "foo.com", "www.bbc.org.uk", "x.co.uk", "shop.com.net.org", "www.google.com/", "www.rockyou.com/mail/",
         "mysite.net/"]
NONBMP = ["\U0001F600", "\U0001F512"]
AWKWARD = ["İstanbul", "straße", "ǅ", "K"]     # U+0130, ß, U+01C5, U+212A (flagged)
TRICKY = ["j\u212al;", "hj\u212al;2019", "8i\u212a,", "\u212al;'", "201x", "19a9", "1q2", "qwe", "#1x", "#12", "No.", "i<3", "2019", "1999x", "x2000", "20201", "12019", "1qa", "qaz1",
          "1qaz1", "asdf", "a.b", "@.com", "x@y", ".com", "www.", "http://", "No.1", "mr.", "*0*", "12", "abcd", "ABCD", "aBcD",
          "zzzzzzzz", "password", "passwords", "wordpass", "й123", "1йцу", "qwer!", "1234", "4321", "tty1", "er5tgb"]
HOSTILE = [" ", "　", " ", " ", "\u0085", "\u001c", "\u001d", "\u001e", "\u001f", "\u000b", "\u000c",
           "\u007f", "﻿", "​", " ", " "]

ENCODINGS = ["utf-8", "utf-8", "utf-8", "iso-8859-1", "cp1252", "cp1251", "koi8-r", "ascii", "utf-8-sig"]


def representable(s, enc):
    try:
        return s.encode(enc).decode(enc) == s
    except UnicodeError:
        return False


# a "Unicode zoo": code points from many general categories and scripts, including the ones with odd case
# mappings, digit/letter look-alikes and invisible or direction-changing characters
ZOO_RANGES = [
    (0x00A1, 0x00FF), (0x0100, 0x017F), (0x0180, 0x024F), (0x0370, 0x03FF), (0x0400, 0x04FF), (0x0531, 0x0587),
    (0x05D0, 0x05EA), (0x0621, 0x064A), (0x0660, 0x0669), (0x0905, 0x0939), (0x0966, 0x096F), (0x0E01, 0x0E30),
    (0x10A0, 0x10FF), (0x1E00, 0x1EFF), (0x1F00, 0x1FFF), (0x2000, 0x206F), (0x2070, 0x209F), (0x20A0, 0x20BF),
    (0x2100, 0x214F), (0x2150, 0x218B), (0x2190, 0x21FF), (0x2460, 0x24FF), (0x2C00, 0x2C5F), (0x3041, 0x3096),
    (0x30A1, 0x30FA), (0x4E00, 0x4E50), (0xAC00, 0xAC40), (0xFB00, 0xFB06), (0xFF01, 0xFF5E), (0xFE00, 0xFE0F),
    (0x0300, 0x036F), (0x1D400, 0x1D433), (0x1F600, 0x1F64F), (0x10400, 0x1044F), (0xE000, 0xE010),
]
ZOO_SINGLES = ["İ", "ı", "ẞ", "ß", "ſ", "ǅ", "ǈ", "ǲ", "K", "Å", "Ω", "ϴ", "ς", "ﬁ", "ŉ", "ǰ", "ΐ", "ᾳ", "Ⅷ", "ⅷ", "Ⓐ", "ⓩ",
               "²", "½", "٣", "３", "۵", "\u00ad", "\u200d", "\u202e", "\ufeff", "\u00a0", "\u3000", "\U0001d7d8"]


def zoo_char(t):
    if t.chance(1, 3):
        return ZOO_SINGLES[t.draw(len(ZOO_SINGLES))]
    lo, hi = ZOO_RANGES[t.draw(len(ZOO_RANGES))]
    c = chr(lo + t.draw(hi - lo + 1))
    if c in "\u2028\u2029\u0085\u03a3" or 0xD800 <= ord(c) <= 0xDFFF:
        # (capital sigma is left out: str.lower() maps it to a final or a medial sigma depending on its neighbours, so
        # lower-casing a segment and lower-casing the section around it differ -- the reference tallies do not model that)
        return "x"
    return c


TRICKY_BITS = ["19", "20", "195", "201", "199", "2019", "1", "9", "may", "x", "a", "#1", "No.", "<3", ".", "@", "www.", ".com",
               "1q", "az", "qw", "er", "12", "3", "!", "i", "I", "й", "ц", "у", "к"]


def gen_password(t, flavour):
    parts = []
    if flavour.get("zoo") and t.chance(1, 3):
        # a word, digits or a symbol with one to three zoo characters spliced in or glued on
        base = t.choice(WORDS + CAPWORDS + DIGS + SYMS + WALKS)
        for _ in range(t.between(1, 3)):
            k = t.draw(len(base) + 1)
            base = base[:k] + zoo_char(t) + base[k:]
        return base
    if flavour.get("tricky") and t.chance(1, 8):
        # a piece of text twice in one password, the first time inside a longer keyboard run the detector rejects
        # (runs starting with e / y / ty / 123, ending in 123, or containing a word)
        walk = t.choice(WALKS + ["3wsx", "9o0p", "sw21", "4rfv", "xsw2"])
        first = t.choice(["e", "y", "ty", "123", "t", "pop", ""]) + walk + t.choice(["", "123", "e"])
        return first + t.choice(["!", "X ", "-", "7", ""]) + walk + t.choice(["", "1", "!"])
    if flavour.get("tricky") and t.chance(1, 3):
        # adversarial mode: many short trigger fragments glued together, so patterns touch, overlap and repeat
        return "".join(t.choice(TRICKY_BITS) for _ in range(t.between(2, 6)))
    n = t.between(1, 3)
    for _ in range(n):
        k = t.draw(14)
        if k <= 3:
            parts.append(t.choice(WORDS))
        elif k == 4:
            parts.append(t.choice(CAPWORDS))
        elif k <= 6:
            parts.append(t.choice(DIGS))
        elif k == 7:
            parts.append(t.choice(SYMS) if not (flavour.get("nonascii") and t.chance(1, 4)) else t.choice(CASED_SYMBOLS))
        elif k == 8:
            parts.append(t.choice(WALKS))
        elif k == 9:
            parts.append(t.choice(CONTEXT))
        elif k == 10:
            parts.append(t.choice(NONASCII) if flavour.get("nonascii") else t.choice(WORDS))
        elif k == 11:
            if flavour.get("sites"):
                parts.append(t.choice(EMAILS + SITES))
            else:
                parts.append(t.choice(WORDS) + t.choice(WORDS))
        elif k == 12:
            if flavour.get("nonbmp"):
                parts.append(t.choice(NONBMP))
            elif flavour.get("awkward"):
                parts.append(t.choice(AWKWARD))
            else:
                parts.append(t.choice(DIGS))
        else:
            if flavour.get("hostile"):
                parts.append(t.choice(HOSTILE))
            elif flavour.get("tricky"):
                parts.append(t.choice(TRICKY))
            else:
                parts.append(t.choice(WORDS))
    return "".join(parts)


def gen_list(t, flavour=None, min_lines=3, max_lines=40):
    """returns (passwords, opts).  Passwords are drawn with repetition from a small pool so
    that counts reach the multi-word threshold."""
    flavour = dict(flavour or {})
    enc = flavour.get("encoding") or "utf-8"
    pool = []
    for _ in range(t.between(2, 10)):
        for _try in range(5):
            pw = gen_password(t, flavour)
            if pw and len(pw) <= (23 if flavour.get("long") else 20) and representable(pw, enc):
                pool.append(pw)
                break
    if not pool:
        pool = ["password1"]
    n = t.between(min_lines, max_lines)
    if flavour.get("large"):
        # a list of some hundred to a few thousand lines over a vocabulary of 40-300 passwords with a skewed
        # (Zipf-like) repetition: many distinct terminals, wide tie groups of once-seen values, characters outside a small
        # OMEN alphabet, counts far above the multi-word threshold
        if t.chance(1, 2):
            # realistic vocabulary: derivations sampled from a shipped ruleset's own grammar
            from . import bigworld
            names = bigworld.available()
            if names:
                for pw in bigworld.realistic_passwords(t, t.between(60, 400), names[t.draw(len(names))]):
                    if representable(pw, enc) and pw == pw.strip("\r\n"):
                        pool.append(pw)
        for _ in range(t.between(40, 300)):
            pw = gen_password(t, flavour)
            if pw and len(pw) <= (23 if flavour.get("long") else 20) and representable(pw, enc):
                pool.append(pw)
        n = t.between(300, 2500)
        pws = [pool[min(t.draw(len(pool)), t.draw(len(pool)), t.draw(len(pool)))] for _ in range(n)]
        shape = t.draw(4)
        if shape == 2:
            # flat: 700-1 250 distinct passwords, each once, no two with the same first two characters -- the opposite
            # extreme of the skewed lists: no initial n-gram, no terminal and no structure stands out
            import itertools
            alpha = [c for c in "abcdefghijklmnopqrstuvwxyz0123456789" if representable(c, enc)]
            starts = ["".join(p) for p in itertools.product(alpha, repeat=2)]
            starts = t.shuffle(starts)[:t.between(700, 1250)]
            pws = [s2 + "".join(alpha[t.draw(len(alpha))] for _ in range(t.between(3, 6))) for s2 in starts]
        elif shape == 3:
            # saturated: every one-, two- and three-digit string occurs, so those lists hold exactly 10, 100 and 1 000
            # distinct items (round numbers are where batch sizes and thresholds sit)
            sat = ["%d" % i for i in range(10)] + ["%02d" % i for i in range(100)] + ["%03d" % i for i in range(1000)]
            pws = pws[:t.between(50, 400)] + t.shuffle(sat)
            if t.chance(1, 2):
                pws += [sat[t.draw(len(sat))] for _ in range(t.between(1, 300))]
    else:
        pws = [pool[t.draw(len(pool))] for _ in range(n)]
    if t.chance(1, 2):
        # make some base words frequent enough for multi-word detection
        w = t.choice(WORDS)
        pws += [w] * t.between(5, 7)
    if not flavour.get("large") and t.chance(1, 8):
        # a compound the trainer keeps whole (seen often) although both halves are among the most common words of their
        # lengths, each length with six different counts: a scorer that learns only the more common strings splits it
        w1, w2 = t.sample([w for w in WORDS if len(w) >= 4], 2)
        for w in (w1, w2):
            pws += [w] * 10
            for c in (1, 2, 3, 4, 5):
                filler = "".join("bcdfghjklmnprstvz"[t.draw(17)] if i % 2 == 0 else "aeiou"[t.draw(5)] for i in range(len(w)))
                pws += [filler] * c
        whole = w1 + w2
        pws += [whole + "12"] * 6 + [whole + t.choice(["2015", "1999", "2008"])] * 3 + [whole + t.choice(["#1", "<3", ";p"])] * 2
        pws += [whole.capitalize() + "12!"] * 2
        pws = [p for p in pws if len(p) <= 20 and representable(p, enc)]
    if flavour.get("long"):
        # passwords of exactly the maximum trained length (21), one below and one above
        for target in t.sample([20, 21, 21, 22], 2):
            w = "".join(t.choice(WORDS) for _ in range(6))[:target]
            pws += [w] * t.between(1, 3)
    if flavour.get("multi3") or t.chance(1, 6):
        # a three-word multi-word, its two-word tail and head, and the base words often enough to be split
        ws = t.sample([w for w in WORDS if len(w) >= 4], 3)
        for w in ws:
            pws += [w] * 5
        pws.append("".join(ws))
        if t.chance(2, 3):
            pws.insert(t.draw(len(pws) + 1), ws[1] + ws[2])
        if t.chance(1, 3):
            pws.append(ws[0] + ws[1])
        if t.chance(1, 3):
            pws.append(ws[0].capitalize() + ws[1] + ws[2].upper())
    opts = {
        "coverage": t.choice([0.6, 0.6, 0.5, 1.0, 0.0, 0.1, 0.9]),
        "ngram": t.choice([4, 3, 2, 4, 5]),
        "alphabet_size": t.choice([100, 100, 20, 10, 50]),
        "encoding": enc,
        "prefixcount": False,
        "save_sensitive": t.chance(1, 4),
    }
    return pws, opts


class Capture:
    def __init__(self):
        self.parses = []        # (password, section_list copy)
        self.omen_trainer = None
        self.omen_keyspace = None
        self.omen_levels_count = None
        self.reads = []         # per TrainerFileInput instance: list of yielded passwords
        self.file_inputs = []
        self.multiword = None
        self.parser = None


_CAP = [None]
_INSTALLED = [False]


def install():
    if _INSTALLED[0]:
        return
    import lib_trainer.pcfg_password_parser as ppp
    import lib_trainer.run_trainer as rt
    import lib_trainer.trainer_file_input as tfi
    orig_parse = ppp.PCFGPasswordParser.parse
    orig_bsc = ppp.base_structure_creation

    def bsc(section_list):
        cap = _CAP[0]
        if cap is not None and cap.parses and cap.parses[-1][1] is None:
            cap.parses[-1][1] = [tuple(x) for x in section_list]
        return orig_bsc(section_list)

    def parse(self, password):
        cap = _CAP[0]
        if cap is not None:
            cap.parser = self
            cap.parses.append([password, None])
        return orig_parse(self, password)

    ppp.PCFGPasswordParser.parse = parse
    ppp.base_structure_creation = bsc
    orig_save = rt.save_omen_rules_to_disk

    def save_omen(omen_trainer, omen_keyspace, omen_levels_count, *a, **kw):
        cap = _CAP[0]
        if cap is not None:
            cap.omen_trainer = omen_trainer
            cap.omen_keyspace = omen_keyspace
            cap.omen_levels_count = omen_levels_count
        return orig_save(omen_trainer, omen_keyspace, omen_levels_count, *a, **kw)

    rt.save_omen_rules_to_disk = save_omen
    orig_read = tfi.TrainerFileInput.read_password

    def read_password(self):
        cap = _CAP[0]
        if cap is None:
            yield from orig_read(self)
            return
        lst = []
        cap.reads.append(lst)
        cap.file_inputs.append(self)
        for pw in orig_read(self):
            lst.append(pw)
            yield pw

    tfi.TrainerFileInput.read_password = read_password
    rt.TrainerFileInput = tfi.TrainerFileInput
    orig_mwd = rt.MultiWordDetector

    def mwd(*a, **kw):
        d = orig_mwd(*a, **kw)
        if _CAP[0] is not None:
            _CAP[0].multiword = d
        return d

    rt.MultiWordDetector = mwd
    _INSTALLED[0] = True


class SeededUuid:
    def __init__(self, n):
        self.n = n

    def uuid4(self):
        self.n += 1
        return _uuid.UUID(int=(0x1234 << 64) | self.n, version=4)


def program_info(training_file, opts, rule="R"):
    return {
        "name": "PCFG Trainer", "version": "4.7", "author": "Matt Weir", "contact": "cweir@vt.edu",
        "rule_name": rule, "training_file": training_file, "encoding": opts.get("encoding", "utf-8"),
        "comments": "", "save_sensitive": opts.get("save_sensitive", False),
        "prefixcount": opts.get("prefixcount", False), "ngram": opts.get("ngram", 4),
        "alphabet_size": opts.get("alphabet_size", 100),
        "alphabet": "abcdefghijklmnopqrstuvwxyzABCDEFGHIJKLMNOPQRSTUVWXYZ0123456789!.*@-_$#<?",
        "smoothing": 0.01, "coverage": opts.get("coverage", 0.6), "max_len": 21, "multiword": opts.get("multiword", False),
    }


class TrainResult:
    pass


def write_training_file(path, passwords, encoding, raw=None):
    if raw is not None:
        data = raw
    else:
        data = "".join(p + "\n" for p in passwords).encode(encoding, errors="surrogateescape")
    with open(path, "wb") as f:
        f.write(data)


class FaultyDisk:
    """the disk under the rules directory for one training: the `file_k`-th rules file opened for writing fails its
    `write_j`-th write (or, write_j == 0, its close) with EIO, `times` times in a row; afterwards the disk is healthy
    again.  Only codecs.open in write mode below `root` is affected; reads are never touched."""

    def __init__(self, root, file_k, write_j, times):
        self.root = os.path.abspath(root)
        self.file_k, self.write_j, self.left = file_k, write_j, times
        self.opened = 0
        self.fired = 0
        self.fired_on = None
        self.real_open = None

    def open(self, filename, mode="r", *a, **kw):
        f = self.real_open(filename, mode, *a, **kw)
        if "w" not in mode or not os.path.abspath(str(filename)).startswith(self.root + os.sep):
            return f
        self.opened += 1
        if self.opened < self.file_k or self.left <= 0:
            return f
        return _FaultyFile(f, self, filename)


class _FaultyFile:
    def __init__(self, f, disk, name):
        self._f, self._disk, self._name, self._writes = f, disk, name, 0

    def _fail(self):
        import errno
        self._disk.left -= 1
        self._disk.fired += 1
        self._disk.fired_on = os.path.relpath(str(self._name), self._disk.root)
        raise OSError(errno.EIO, "Input/output error (injected)")

    def write(self, data):
        self._writes += 1
        if self._disk.left > 0 and self._disk.write_j and self._writes == self._disk.write_j:
            self._f.write(data[: len(data) // 2])       # a short write, then the error
            self._fail()
        return self._f.write(data)

    def close(self):
        self._f.close()
        if self._disk.left > 0 and self._disk.write_j == 0 and self._writes:
            self._writes = 0
            self._fail()

    def __enter__(self):
        return self

    def __exit__(self, et, ev, tb):
        if et is None:
            self.close()
        else:
            self._f.close()
        return False

    def __getattr__(self, name):
        return getattr(self._f, name)


def train(passwords, opts, rule="R", raw=None, uuid_seed=0, filename="train.txt", write_fault=None):
    """runs the real trainer on the scratch disk; returns TrainResult(ok, exc, cap, rule_dir, stdout).
    write_fault = (file_k, write_j, times): see FaultyDisk; the result carries .disk"""
    import codecs
    import lib_trainer.config_file as cfgmod
    import lib_trainer.run_trainer as rt
    from lib_trainer.trainer_file_output import create_rule_folders
    install()
    wr = scratch.worker_root()
    tf = os.path.join(wr, filename)
    write_training_file(tf, passwords, opts.get("encoding", "utf-8"), raw)
    rdir = os.path.join(wr, "Rules", rule)
    info = program_info(tf, opts, rule)
    cap = Capture()
    res = TrainResult()
    res.cap = cap
    res.rule_dir = rdir
    res.info = info
    res.exc = None
    res.ok = False
    saved_uuid = cfgmod.uuid
    cfgmod.uuid = SeededUuid(uuid_seed)
    _CAP[0] = cap
    out = guesser.Sink(keep=True)
    res.disk = None
    res.slept = 0.0
    real_sleep = None
    real_codecs_open = codecs.open
    if write_fault is not None:
        res.disk = FaultyDisk(rdir, *write_fault)
        res.disk.real_open = real_codecs_open
        codecs.open = res.disk.open
        # (a retry loop may wait between attempts: the wait costs simulated time only)
        import time as _time
        real_sleep = _time.sleep
        _time.sleep = lambda secs: setattr(res, "slept", res.slept + float(secs))
    try:
        with guesser.streams(out, guesser.Sink()):
            if not create_rule_folders(rdir):
                res.exc = "create_rule_folders failed"
            else:
                try:
                    res.ok = bool(rt.run_trainer(info, rdir))
                except BaseException as e:   # noqa
                    if e.__class__.__name__ == "HarnessTimeout":
                        raise
                    import traceback
                    res.exc = traceback.format_exc()
    finally:
        codecs.open = real_codecs_open
        if real_sleep is not None:
            _time.sleep = real_sleep
        _CAP[0] = None
        cfgmod.uuid = saved_uuid
    res.stdout = out.text()
    return res
