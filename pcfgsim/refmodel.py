"""Reference models.  None of this imports repository code.

RefRuleset  - what a ruleset directory *means*: variables, probability groups,
              base structures, the language of pre-terminals with exact
              probabilities, the expansion of a pre-terminal.
RefOmen     - what an OMEN model means: the set of strings of each level.
"""

import configparser
import itertools
import json
import math
import os
import re
from fractions import Fraction

_TOK = re.compile(r"([A-Za-z])([0-9]*)")


_SIG = {"utf-8-sig": "utf-8", "utf_8_sig": "utf-8", "utf8-sig": "utf-8"}


def _file_bytes(path, encoding):
    """bytes of a ruleset file and the codec for its fields: a codec that writes a signature (utf-8-sig) marks the FILE
    once, at its start; the fields are then plain utf-8 (a U+FEFF anywhere else is content)"""
    with open(path, "rb") as f:
        data = f.read()
    enc = _SIG.get(str(encoding).lower())
    if enc:
        if data.startswith(b"\xef\xbb\xbf"):
            data = data[3:]
        return data, enc
    return data, encoding


def _read_list_file(path, encoding):
    """value<TAB>prob lines; bytes are split on \\n only (the format is
    line-oriented on LF), a trailing CR is dropped, fields decoded afterwards."""
    out = []
    data, encoding = _file_bytes(path, encoding)
    for raw in data.split(b"\n"):
        if raw.endswith(b"\r"):
            raw = raw[:-1]
        if not raw:
            continue
        parts = raw.split(b"\t")
        if len(parts) < 2:
            raise ValueError("malformed line in %s: %r" % (path, raw))
        value = parts[0].decode(encoding, errors="surrogateescape")
        prob = float(parts[1].decode("ascii").strip())
        out.append((value, prob))
    return out


def group_values(pairs):
    """consecutive lines with equal probability form one group"""
    groups = []
    for value, prob in pairs:
        if groups and groups[-1]["prob"] == prob:
            groups[-1]["values"].append(value)
        else:
            groups.append({"prob": prob, "values": [value]})
    return groups


def parse_structure(text):
    """'A3D2M' -> ['A3','D2','M']"""
    reps = []
    pos = 0
    for m in _TOK.finditer(text):
        if m.start() != pos:
            raise ValueError("bad structure %r" % text)
        reps.append(m.group(1) + m.group(2))
        pos = m.end()
    if pos != len(text):
        raise ValueError("bad structure %r" % text)
    return reps


def ulps_close(a, b, n_factors):
    """tool float a against exact/reference value b"""
    if a == b:
        return True
    b = float(b)
    if a == b:
        return True
    tol = 4 * max(1, n_factors) * 2.0 ** -52
    scale = max(abs(a), abs(b))
    if scale < 1e-290:
        # denormal range: products lose relative precision; allow a few
        # denormal steps per factor
        return abs(a - b) <= max(scale * 1e-3, 5e-324 * 4 * max(1, n_factors)) or abs(a - b) <= scale * 0.5
    return abs(a - b) <= tol * scale


class RefRuleset:
    SECTIONS = ("BASE_A", "BASE_D", "BASE_O", "BASE_K", "BASE_X", "BASE_Y")

    def __init__(self, directory, skip_brute=False, skip_case=False, folder="Grammar"):
        self.dir = directory
        self.skip_brute = skip_brute
        self.skip_case = skip_case
        cfg = configparser.ConfigParser()
        with open(os.path.join(directory, "config.ini")) as f:
            cfg.read_file(f)
        self.cfg = cfg
        self.encoding = cfg.get("TRAINING_DATASET_DETAILS", "encoding")
        self.uuid = cfg.get("TRAINING_DATASET_DETAILS", "uuid")
        self.vars = {}      # name -> list of groups {'prob', 'values'}
        self.flat = {}      # name -> list of (value, prob)
        for sec in self.SECTIONS + ("CAPITALIZATION",):
            name = cfg.get(sec, "name")
            sub = cfg.get(sec, "directory")
            for fn in json.loads(cfg.get(sec, "filenames")):
                var = name + fn.split(".")[0]
                if sec == "CAPITALIZATION" and skip_case:
                    n = int(fn.split(".")[0])
                    self.vars[var] = [{"prob": 1.0, "values": ["L" * n]}]
                    self.flat[var] = [("L" * n, 1.0)]
                    continue
                pairs = _read_list_file(os.path.join(directory, sub, fn), self.encoding)
                self.flat[var] = pairs
                self.vars[var] = group_values(pairs)
        for var, rel in (("E", os.path.join("Emails", "email_providers.txt")), ("W", os.path.join("Websites", "website_hosts.txt"))):
            fp = os.path.join(directory, rel)
            pairs = _read_list_file(fp, self.encoding) if os.path.exists(fp) else []
            self.flat[var] = pairs
            self.vars[var] = group_values(pairs)
        mp = os.path.join(directory, "Omen", "pcfg_omen_prob.txt")
        pairs = _read_list_file(mp, self.encoding) if os.path.exists(mp) else []
        self.flat["M"] = pairs
        self.vars["M"] = group_values(pairs)
        # base structures
        self.raw_base = []
        gdata, _genc = _file_bytes(os.path.join(directory, folder, "grammar.txt"), self.encoding)
        for raw in gdata.split(b"\n"):
            raw = raw.rstrip(b"\r")
            if not raw:
                continue
            a, b = raw.split(b"\t")[:2]
            self.raw_base.append((a.decode("ascii"), float(b.decode("ascii").strip())))
        self.p_markov = 0.0
        for s, p in self.raw_base:
            if s == "M":
                self.p_markov = p
                break
        self.base = []      # {'prob','replacements','text'}
        total = 1.0 - self.p_markov if skip_brute else 1.0
        for s, p in self.raw_base:
            reps = parse_structure(s)
            if skip_brute and "M" in reps:
                continue
            full = []
            for r in reps:
                full.append(r)
                if r[0] == "A":
                    full.append("C" + r[1:])
            self.base.append({"prob": p / total, "raw_prob": p, "replacements": full, "text": s})

    # -- language -----------------------------------------------------------
    def language_size(self):
        n = 0
        for b in self.base:
            k = 1
            for r in b["replacements"]:
                k *= len(self.vars.get(r, []))
            n += k
        return n

    def guess_count(self, cap=None, omen=None):
        """total number of guesses; M groups need an omen model (else counted 0)"""
        n = 0
        for b in self.base:
            k = 1
            for r in b["replacements"]:
                if r == "M":
                    continue
                k *= sum(len(g["values"]) for g in self.vars.get(r, []))
            n += k
            if cap and n > cap:
                return n
        return n

    def tool_prob(self, base, idx):
        """the product in the order the property states it (base first, then
        left to right) in IEEE doubles"""
        p = base["prob"]
        for r, i in zip(base["replacements"], idx):
            p *= self.vars[r][i]["prob"]
        return p

    def exact_prob(self, base, idx):
        p = Fraction(base["prob"])
        for r, i in zip(base["replacements"], idx):
            p *= Fraction(self.vars[r][i]["prob"])
        return p

    def language(self):
        """yields (base_index, pt_tuple) for every derivation"""
        for bi, b in enumerate(self.base):
            ranges = [range(len(self.vars.get(r, []))) for r in b["replacements"]]
            for idx in itertools.product(*ranges):
                yield bi, tuple(zip(b["replacements"], idx))

    def base_for_pt(self, pt, base_prob=None):
        """indices of base structures matching a pre-terminal's variable list"""
        names = [t[0] for t in pt]
        out = []
        for bi, b in enumerate(self.base):
            # the rescaled base probability is compared within a few ulps: p/(1-P(M)) and p*(1/(1-P(M))) are
            # both right
            if b["replacements"] == names and (base_prob is None or b["prob"] == base_prob
                                                or ulps_close(base_prob, b["prob"], 3)):
                out.append(bi)
        return out

    def canonical_base_prob(self, pt, base_prob):
        """the reference probability of the base structure a tool-side (pt, base_prob) belongs to"""
        best = None
        for bi in self.base_for_pt(pt, base_prob):
            p = self.base[bi]["prob"]
            if best is None or abs(p - base_prob) < abs(best - base_prob):
                best = p
        return base_prob if best is None else best

    # -- expansion ----------------------------------------------------------
    def expand(self, pt, omen=None):
        """list of guesses of a pre-terminal (cartesian product, structure
        order, masks applied to the alpha word immediately before them)"""
        names = [t[0] for t in pt]
        if names == ["M"]:
            level = int(self.vars["M"][pt[0][1]]["values"][0])
            return sorted(omen.strings(level)) if omen is not None else None
        pools = []
        for name, i in pt:
            pools.append(self.vars[name][i]["values"])
        out = []
        for combo in itertools.product(*pools):
            segs = []
            for (name, _), v in zip(pt, combo):
                if name[0] == "C":
                    word = segs[-1]
                    segs[-1] = "".join(c.upper() if m == "U" else c for c, m in zip(word, v)) \
                        if len(v) == len(word) else None
                    if segs[-1] is None:
                        raise ValueError("mask length mismatch")
                else:
                    segs.append(v)
            out.append("".join(segs))
        return out


class RefOmen:
    """strings s with ln(len(s)) + ip(s[:n-1]) + sum cp(s[i-n+1:i+1]) == L"""

    def __init__(self, directory):
        cfg = configparser.ConfigParser()
        cfg.read(os.path.join(directory, "config.txt"))
        self.ngram = cfg.getint("training_settings", "ngram")
        self.encoding = cfg.get("training_settings", "encoding")
        self.max_level = 10
        self.ip = {}
        self.cp = {}
        self.ln = {}
        for lvl, gram in self._read(os.path.join(directory, "IP.level")):
            self.ip[gram] = lvl
        for lvl, gram in self._read(os.path.join(directory, "CP.level")):
            self.cp.setdefault(gram[:-1], []).append((gram[-1], lvl))
        with open(os.path.join(directory, "LN.level"), "rb") as f:
            for i, raw in enumerate(x for x in f.read().split(b"\n") if x.strip()):
                self.ln[i + 1] = int(raw.strip())

    @classmethod
    def from_spec(cls, omen):
        self = cls.__new__(cls)
        self.ngram = omen["ngram"]
        self.encoding = omen.get("encoding", "utf-8")
        self.max_level = 10
        self.ip = {g: l for l, g in omen["ip"]}
        self.cp = {}
        for l, g in omen["cp"]:
            self.cp.setdefault(g[:-1], []).append((g[-1], l))
        self.ln = {i + 1: l for i, l in enumerate(omen["ln"])}
        return self

    def _read(self, path):
        data, enc = _file_bytes(path, self.encoding)
        for raw in data.split(b"\n"):
            if raw.endswith(b"\r"):
                raw = raw[:-1]
            if not raw:
                continue
            a, b = raw.split(b"\t", 1)
            yield int(a.decode("ascii")), b.decode(enc)

    def level(self, s):
        n = self.ngram
        if len(s) < n or len(s) not in self.ln:
            return -1
        try:
            lvl = self.ln[len(s)] + self.ip[s[: n - 1]]
            for end in range(n, len(s) + 1):
                ctx = s[end - n: end - 1]
                ch = s[end - 1]
                for c, l in self.cp[ctx]:
                    if c == ch:
                        lvl += l
                        break
                else:
                    return -1
            return lvl
        except KeyError:
            return -1

    def strings(self, level, cap=200000):
        """multiset (list) of all strings of exactly this level"""
        out = []
        n = self.ngram
        for length, l_ln in sorted(self.ln.items()):
            if length < n or l_ln > level:
                continue
            for ip, l_ip in self.ip.items():
                rest = level - l_ln - l_ip
                if rest < 0:
                    continue
                self._dfs(ip, ip, length - (n - 1), rest, out, cap)
                if len(out) > cap:
                    raise OverflowError("omen level too large")
        return out

    def _dfs(self, s, ctx, remaining, budget, out, cap):
        if remaining == 0:
            if budget == 0:
                out.append(s)
            return
        if len(out) > cap:
            return
        for ch, l in self.cp.get(ctx, ()):
            if l <= budget:
                nctx = (ctx + ch)[1:] if len(ctx) > 0 else ""
                self._dfs(s + ch, nctx, remaining - 1, budget - l, out, cap)

    def count(self, level, cap=200000):
        memo = {}
        n = self.ngram

        def rec(ctx, remaining, budget):
            if remaining == 0:
                return 1 if budget == 0 else 0
            key = (ctx, remaining, budget)
            if key in memo:
                return memo[key]
            t = 0
            for ch, l in self.cp.get(ctx, ()):
                if l <= budget:
                    t += rec((ctx + ch)[1:], remaining - 1, budget - l)
            memo[key] = t
            return t

        total = 0
        for length, l_ln in self.ln.items():
            if length < n or l_ln > level:
                continue
            for ip, l_ip in self.ip.items():
                rest = level - l_ln - l_ip
                if rest >= 0:
                    total += rec(ip, length - (n - 1), rest)
        return total
