"""C14: --skip_brute and --all_lower are pure restrictions of the default run.

One run = one ruleset on the scratch disk loaded by four process images (default,
--skip_brute, --all_lower, both) through ``pcfg_guesser.main()``, plus a quit/resume
history in which the flags are given only to the first process and must be taken from
the save file by the ``--load`` process (restart fault: only S.sav survives).
"""

import collections
import os

from .. import scratch, session, worlds
from ..refmodel import RefRuleset, ulps_close
from ..runner import RunResult, digest_of
from . import resume

CONFIG = {
    "level": "exploration",
    "rule": "one run = synthetic ruleset with the Markov structure first / middle / last / absent / alone x four process images "
            "(default D, --skip_brute S, --all_lower L, both SL); oracle: S = D minus Markov pre-terminals with probabilities / (1-P(M)), "
            "same order up to permutation inside equal-probability runs, S == D when there is no M line, S empty when M is alone and "
            "nothing on stdout; L / SL = reference language with every capitalisation variable collapsed to one all-lower mask of "
            "probability 1; then a quit at a drawn pop in a flagged process followed by --load in a new process image WITHOUT flags or with flags contradicting the saved ones "
            "(flags must come from S.sav); non-trivial = ruleset has an M line together with other structures, or a capitalisation "
            "variable with >= 2 groups; distinct = distinct (ruleset, cut)",
    "components": {
        "real": ["pcfg_guesser.main/load_save/create_save_config", "grammar_io._load_base_structures/_load_terminals",
                 "PcfgQueue", "CrackingSession"],
        "stub": ["keyboard thread stand-in (quit at a pop)", "virtual clock", "stdout/stderr recorders"],
    },
    "assumptions": ["rescaled probabilities compared within 4n ulps; order compared up to permutation inside runs of (approximately) "
                    "equal probability, because heap order among exact ties may depend on what else is queued"],
    "quick_budget_s": 30, "thorough_budget_s": 600, "chunk": 10,
}


def warm():
    import pcfg_guesser   # noqa
    session.install()


def argv(flags, load=False, with_flags=True):
    a = ["-r", "R", "-s", "S"]
    if load:
        a.append("--load")
    if with_flags:
        if flags["skip_brute"]:
            a.append("--skip_brute")
        if flags["skip_case"]:
            a.append("--all_lower")
    return a


def run_img(flags, load=False, with_flags=True, trigger=None):
    ctx = session.SessionCtx(trigger=trigger)
    r = session.run_main(argv(flags, load, with_flags), ctx)
    E = session.emitted_preterminals(ctx)
    ends = [e["first_line"] for e in E[1:]] + [ctx.nlines]
    for e, end in zip(E, ends):
        e["lines"] = ctx.guesses[e["first_line"]:end]
    r.emitted = E
    r.remainder = []
    for call in ctx.restore_omen_calls:
        r.remainder.extend(ctx.guesses[call[1]:call[2] if call[2] is not None else ctx.nlines])
    return r


def gen_world(t):
    mpos = t.choice(["first", "middle", "last", "absent", "alone", "middle"])
    spec = worlds.gen_syn(t, allow_m=False, max_pts=150, max_structs=3, max_vars=3,
                          pools=["dyadic", "decimal", "normalised", "tie"])
    worlds.normalise(t, spec) if t.chance(1, 2) else None
    spec["omen_prob"] = [["1", "0.5"], ["2", "0.25"]][: t.between(1, 2)]
    base = [b for b in spec["base"] if b[0] != "M"]
    # (a coverage close to 1 gives the Markov structure a probability below 1e-4, which str(float) writes in exponent form)
    mp = t.choice(["0.4", "0.25", "0.5", "0.0625", "0.9", "3.999999999998545e-05", "1e-05", "2.5e-07", "0.00011"])
    if mpos == "alone":
        base = [["M", "1.0"]]
    elif mpos == "first":
        base.insert(0, ["M", mp])
    elif mpos == "last":
        base.append(["M", mp])
    elif mpos == "middle":
        base.insert(len(base) // 2 if len(base) > 1 else 0, ["M", mp])
    if mpos not in ("absent", "alone") and t.chance(1, 8):
        # a very small --coverage: the Markov structure has all but 1e-10 .. 1e-12 of the probability mass
        near = t.choice(["0.9999999999", "0.999999999999", "0.99999999"])
        rest = ["6e-11", "3e-11", "1e-11", "5e-12", "1e-12"]
        k = 0
        for b in base:
            if b[0] == "M":
                b[1] = near
            else:
                b[1] = rest[min(k, len(rest) - 1)]
                k += 1
    spec["base"] = base
    spec["mpos"] = mpos
    return spec


def seq_of(r):
    return [(e["pt"], e["prob"], e["base_prob"]) for e in r.emitted]


def run_one(tape, tier, prop):
    res = RunResult()
    t = tape
    res.stats["queue_size_knob_%s" % session.draw_queue_knob(t)] += 1
    spec = gen_world(t)
    wr = scratch.fresh_disk(scratch.draw_place(t))
    rdir = os.path.join(wr, "Rules", "R")
    worlds.write_ruleset(spec, rdir)
    res.sample = {"ruleset": worlds.spec_summary(spec), "markov_position": spec["mpos"]}
    F = {"D": {"skip_brute": False, "skip_case": False}, "S": {"skip_brute": True, "skip_case": False},
         "L": {"skip_brute": False, "skip_case": True}, "SL": {"skip_brute": True, "skip_case": True}}
    runs = {}
    for name, fl in F.items():
        resume.clean_sessions(wr)
        r = run_img(fl)
        runs[name] = r
        if r.exc:
            res.violate("C14", "raised", {"image": name, "exception": r.exc[-1200:]})
            res.digest = digest_of("raised")
            return res
    refD = RefRuleset(rdir)
    pm = refD.p_markov
    has_m = any(s == "M" for s, _ in refD.raw_base)
    D = seq_of(runs["D"])

    def compare(name, base_name, ref):
        """image `name` against the reference restriction of image `base_name`"""
        got = seq_of(runs[name])
        want_lang = collections.Counter()
        want_prob = {}
        for bi, pt in ref.language():
            b = ref.base[bi]
            want_lang[pt] += 1
            want_prob[(pt, bi)] = ref.exact_prob(b, [x[1] for x in pt])
        got_lang = collections.Counter(pt for pt, _, _ in got)
        if runs[name].stdout and not got:
            return ("stdout_not_empty_when_nothing_to_emit", {"image": name, "stdout": runs[name].stdout[:80]})
        if got_lang != want_lang:
            missing = list((want_lang - got_lang).items())[:3]
            extra = list((got_lang - want_lang).items())[:3]
            return ("restriction_differs", {"image": name, "emitted": sum(got_lang.values()), "expected": sum(want_lang.values()),
                                            "missing": repr(missing), "extra": repr(extra), "markov_position": spec["mpos"]})
        prev = None
        for i, (pt, p, bp) in enumerate(got):
            bis = ref.base_for_pt(pt)
            ok = any(ulps_close(p, want_prob[(pt, bi)], len(pt) + 2) for bi in bis)
            if not ok:
                return ("probability_not_rescaled", {"image": name, "pt": repr(pt), "tool": p,
                                                     "expected": float(want_prob[(pt, bis[0])]) if bis else None, "p_markov": pm})
            if prev is not None and p > prev:
                return ("order", {"image": name, "index": i})
            prev = p
        # the guesses themselves (through main() and the stdout seam)
        for e in runs[name].emitted:
            if any(x[0] == "M" for x in e["pt"]):
                continue
            want = ref.expand(e["pt"])
            if sorted(want) != sorted(e["lines"]):
                return ("guesses_differ_from_restricted_grammar", {"image": name, "pt": repr(e["pt"]), "expected": sorted(want)[:6],
                                                                   "written": sorted(e["lines"])[:6]})
        return None

    problems = []
    refS = RefRuleset(rdir, skip_brute=True)
    refL = RefRuleset(rdir, skip_case=True)
    refSL = RefRuleset(rdir, skip_brute=True, skip_case=True)
    for name, ref in (("S", refS), ("L", refL), ("SL", refSL)):
        p = compare(name, "D", ref)
        if p:
            problems.append(p)
            break
    # S against D directly: same order up to equal-probability runs; identical when no M line
    if not problems:
        S = seq_of(runs["S"])
        Dn = [(pt, p, bp) for pt, p, bp in D if not (len(pt) == 1 and pt[0][0] == "M")]
        if not has_m:
            if S != D:
                problems.append(("skip_brute_changes_run_without_markov", {"emitted": len(S), "default": len(D)}))
        elif len(S) == len(Dn):
            scale = 1.0 - pm
            for i, ((pt_s, p_s, _), (pt_d, p_d, _)) in enumerate(zip(S, Dn)):
                if not ulps_close(p_s, p_d / scale if scale else 0.0, len(pt_s) + 3):
                    problems.append(("order_differs_from_default", {"index": i, "S": repr(pt_s), "D": repr(pt_d),
                                                                  "p_S": p_s, "p_D_rescaled": p_d / scale if scale else None}))
                    break
        # guesses: S writes exactly D's non-Markov lines
        if not problems:
            def nm_lines(r):
                out = collections.Counter()
                for e in r.emitted:
                    if not (len(e["pt"]) == 1 and e["pt"][0][0] == "M"):
                        out.update(e["lines"])
                return out
            if nm_lines(runs["S"]) != nm_lines(runs["D"]):
                problems.append(("skip_brute_guesses_differ", {}))
            # --all_lower: no guess of the L image may contain a letter that differs from its lower-case form unless the
            # ruleset's alpha value itself does (values are stored lower-case by the trainer; synthetic ones are lower-case)
            for e in runs["L"].emitted:
                if any(x[0] == "M" for x in e["pt"]):
                    continue
                # (keyboard walks, context strings and other non-alpha values keep whatever case they were trained with)
                bad = [g for g in e["lines"] if g != g.lower() and all(v == v.lower() for n, i in e["pt"] if n[0] != "C"
                                                                    for v in refL.vars[n][i]["values"])]
                if bad:
                    problems.append(("all_lower_emits_upper_case", {"guess": bad[0], "pt": repr(e["pt"])}))
                    break
    # flags through save/restore: quit in a flagged process, --load without flags
    hist = None
    if not problems:
        name = t.choice(["S", "L", "SL", "S", "D", "D"])
        fl = F[name]
        U = runs[name].emitted
        if len(U) >= 2:
            k = t.between(1, len(U))
            resume.clean_sessions(wr)
            oracle = resume.ResumeOracle(U, res)
            rA = run_img(fl, trigger=("pop", k))
            pA = oracle.cycle(rA, wr)
            if pA is None and rA.ctx.fired:
                res.faults["quit_then_restart_flags_only_in_save_file"] += 1
                # the --load process gets no flags, or flags that contradict the saved ones: either way the
                # flags are taken from the save file
                other = t.choice(["none", "none", "D", "S", "L", "SL"])
                if other == "none":
                    rB = run_img(fl, load=True, with_flags=False)
                else:
                    rB = run_img(F[other], load=True, with_flags=True)
                pB = oracle.cycle(rB, wr)
                if pB is not None:
                    problems.append(("flags_not_restored_from_save:" + pB[0], dict(pB[1], image=name, cut=k,
                                                                                  load_command_line_flags=other)))
            elif pA is not None:
                problems.append(("flagged_run_inconsistent:" + pA[0], dict(pA[1], image=name, cut=k)))
            hist = (name, k)
    # a new session under a name that was used before: the files an older session left behind (one that was stopped
    # inside a Markov level leaves S.sav and S.omn) belong to that session; the flags of the new one are its own
    if not problems and t.chance(1, 3):
        older, newer = t.sample(["D", "S", "L", "SL"], 2)
        resume.clean_sessions(wr)
        m_lines = sum(len(e["lines"]) for e in runs[older].emitted if len(e["pt"]) == 1 and e["pt"][0][0] == "M")
        trig = ("omen", 1, t.between(1, max(1, min(m_lines, 12)))) if m_lines else ("pop", t.between(1, max(1, len(runs[older].emitted))))
        rO = run_img(F[older], trigger=trig)
        left = sorted(fn for fn in os.listdir(wr) if fn.endswith((".sav", ".omn")))
        if rO.exc is None and left:
            res.faults["new_session_under_a_name_with_leftover_files"] += 1
            res.stats["leftover_" + "+".join(x.rsplit(".", 1)[1] for x in left)] += 1
            rN = run_img(F[newer])
            if rN.exc:
                problems.append(("raised", {"image": newer, "exception": rN.exc[-1200:], "leftover": left}))
            elif seq_of(rN) != seq_of(runs[newer]) or rN.ctx.guesses != runs[newer].ctx.guesses:
                problems.append(("new_session_takes_flags_or_position_from_leftover_files",
                                 {"image": newer, "older_session": older, "leftover": left,
                                  "emitted": len(rN.ctx.guesses), "expected": len(runs[newer].ctx.guesses)}))
    for kind, det in problems:
        res.violate("C14", kind, det)
    multi_c = any(v[0] == "C" and len(g) >= 2 for v, g in spec["vars"].items())
    nontrivial = (has_m and len(refD.raw_base) >= 2) or multi_c
    res.nontrivial = digest_of([spec["base"], spec["vars"], hist]) if nontrivial else None
    res.stats["markov_" + spec["mpos"]] += 1
    res.stats["preterminals_default"] += len(D)
    res.shape = (spec["mpos"], len(refD.raw_base), hist[0] if hist else None)
    res.digest = digest_of([[seq_of(runs[n]) for n in ("D", "S", "L", "SL")], hist, [v.as_dict() for v in res.violations]])
    return res


def extra_phase(tier, base_seed):
    from .. import bigworld, boundary
    out = bigworld.restriction_phase(tier, base_seed)
    b = boundary.c14_phase(tier, base_seed)
    out["violations"].extend(b.pop("violations", []))
    out.update(b)
    return out
