"""C12: the guess stream does not depend on thread timing or on standard input.

System: ``pcfg_guesser.main()`` -> ``CrackingSession.run`` with the *real* ``keypress``
function on a real OS thread, the real status report and the real OMEN loop, under the
baton scheduler of pcfgsim.sched (PCT priorities + change points), a virtual clock and a
scripted keyboard.  One run = one world + one keyboard script + one schedule.
"""

import collections
import os
import sys

from .. import scratch, sched, session, worlds
from ..runner import RunResult, digest_of
from . import resume

CONFIG = {
    "level": "exploration",
    "rule": "one run = synthetic ruleset (often with a Markov structure so quits can land inside a level; 20-600 guesses) x "
            "keyboard script of 0-4 events from {status, help, junk, quit, EOF, closed, lost stdin, EIO, undecodable, silent pipe} "
            "with triggers biased to pre-terminal/level boundaries x PCT schedule (who runs first, 0-3 step change points, 0-2 change "
            "points anchored at the lines that set should_exit / poll liveness / pop / check the flag in the OMEN loop) or, 1 in 3, a "
            "directed case ('q' at once, thread parked before setting the flag, released when main reaches a drawn labelled line for the n-th time) x virtual cost "
            "per guess (1e-4 s .. 1e5 s: sleep(0.1) spans 0..1000 guesses, and the clock can jump by days) x new session or (1 in 4) a session resumed after a stand-in quit inside a Markov level; 1 in 4 thorough runs "
            "place a thread death (EOF/closed/EIO) at ~60 evenly spaced guess indices of one world; oracle: no effective quit => stream == U; "
            "effective quit => prefix of U cut at a legal point not later than the pre-terminal (or next Markov guess) current when "
            "the flag was set, saved state resumes to exactly the rest (RefResume); non-trivial = the keyboard thread ran "
            "concurrently with generation (>= 1 switch after the first guess) or stdin failed; distinct = distinct switch/event logs",
    "components": {
        "real": ["cracking_session.keypress on a real OS thread (baton-scheduled)", "CrackingSession.run/_save_session",
                 "StatusReport.print_status/print_help", "PcfgGrammar.omen_generate_guesses/get_status", "PcfgQueue",
                 "pcfg_guesser.main"],
        "stub": ["threading module (SimThreading: real thread, simulated scheduling)", "time.sleep/perf_counter (virtual clock)",
                 "input() (scripted keyboard)", "stdout/stderr recorders", "datetime"],
    },
    "assumptions": ["pre-emption points are source lines of cracking_session.py, omen_generate_guesses/print_guess/create_guesses, "
                    "PcfgQueue.next, print_status and every seam call; finer (bytecode-level) interleavings are not explored",
                    "a real tty line discipline / SIGINT is not modelled; the keyboard model covers every way input() can return or raise"],
    "quick_budget_s": 40, "thorough_budget_s": 900, "chunk": 8,
}

EVENT_KINDS = [("line", ""), ("line", "q"), ("line", "h"), ("eof", None), ("line", "x y"), ("closed", None),
               ("never", None), ("lost", None), ("ioerror", None), ("undecodable", None), ("line", "Q")]

_LABELS = {}


def warm():
    import pcfg_guesser   # noqa
    session.install()
    find_labels()


def find_labels():
    """anchor labels by source text so they survive edits to the files"""
    if _LABELS:
        return _LABELS
    code = scratch.code_dir()
    out = {}

    def scan(rel, pats):
        path = os.path.join(code, rel)
        base = os.path.basename(rel)
        try:
            lines = open(path, encoding="utf-8").read().split("\n")
        except OSError:
            return
        for i, line in enumerate(lines, 1):
            for pat, lab in pats:
                if pat in line and not line.strip().startswith("#"):
                    out[(base, i)] = lab
                    if lab == "should_exit_set":
                        j = i
                        while j < len(lines) and not lines[j].strip():
                            j += 1
                        out[(base, j + 1)] = "after_should_exit"

    scan("lib_guesser/cracking_session.py", [
        ("pcfg.should_exit = True", "should_exit_set"),
        ("pt_item = self.pqueue.next()", "before_pop"),
        ("user_thread.is_alive()", "liveness_poll"),
        ("self.pcfg.should_exit", "flag_poll"),
        ("time.sleep(", "before_sleep"),
        ("report.print_status(pcfg)", "status"),
        ("self._save_session()", "before_save"),
        ("num_generated_guesses = self.pcfg.create_guesses(", "before_expand"),
        ("self.report.pt_item = pt_item", "after_check"),
        ("self.report.num_guesses += num_generated_guesses", "after_expand"),
    ])
    scan("lib_guesser/pcfg_grammar.py", [
        ("if self.should_exit:", "omen_flag_check"),
        ("self.omen_guess_num += 1", "omen_count"),
        ("markov_cracker.save_session(", "omen_save"),
        ("guess = markov_cracker.next_guess()", "omen_next_guess"),
        ("self.print_guess(guess)", "omen_print"),
        ("while guess is not None:", "omen_loop_test"),
        ("return num_guesses", "return_num_guesses"),
    ])
    _LABELS.update(out)
    return _LABELS


LABEL_NAMES = ["should_exit_set", "after_should_exit", "before_pop", "flag_poll", "before_sleep", "status", "before_save",
               "omen_flag_check", "omen_count", "omen_save", "omen_next_guess", "omen_print", "after_check", "before_expand",
               "input", "woke", "sleep"]


def gen_world(t):
    if t.chance(2, 3):
        spec, _ro = resume.gen_omen_world(t)
        if spec is not None:
            return spec
    return worlds.gen_syn(t, allow_m=False, max_pts=120, max_structs=3, max_vars=3,
                          pools=["dyadic", "decimal", "normalised", "tie", "tiny", "tiny", "mixed"])


def gen_script(t, U, total):
    bounds = sorted({e["first_line"] for e in U} | {total})
    inside = [e["first_line"] + 1 + i for e in U if resume.is_m(e["pt"]) for i in range(min(len(e["lines"]), 6))]
    events = []
    n = 0 if t.chance(3, 10) else t.between(1, 4)
    for _ in range(n):
        style = t.draw(5)
        if style == 0:
            at = 0
        elif style == 1:
            at = bounds[t.draw(len(bounds))] + t.draw(3) - 1
        elif style == 2 and inside:
            at = inside[t.draw(len(inside))]
        else:
            at = t.draw(total + 2)
        kind, text = EVENT_KINDS[t.draw(len(EVENT_KINDS))]
        events.append({"at": max(0, at), "kind": kind, "text": text})
    events.sort(key=lambda e: e["at"])
    return events


def gen_schedule(t, est_steps):
    sch = {"main_first": not t.chance(1, 2), "steps": [], "labels": []}
    for _ in range(t.draw(4)):
        scale = t.choice([40, 400, max(40, est_steps)])
        sch["steps"].append(1 + t.draw(scale))
    for _ in range(t.draw(3)):
        sch["labels"].append((LABEL_NAMES[t.draw(len(LABEL_NAMES))], 1 + t.draw(6)))
    return sch


SYNC_LABELS = ["before_pop", "flag_poll", "after_check", "before_expand", "after_expand", "omen_next_guess", "omen_print",
               "omen_count", "omen_flag_check", "omen_loop_test", "return_num_guesses"]


def gen_directed(t, total):
    """a 'q' typed at once, the thread parked right before it sets the flag, released when main reaches a drawn
    program point for the n-th time: the quit lands at every kind of boundary with probability 1/len(labels)"""
    events = [{"at": 0, "kind": "line", "text": "q"}]
    sch = {"main_first": False, "steps": [], "labels": [],
           "sync": (SYNC_LABELS[t.draw(len(SYNC_LABELS))], t.choice([1, 1, 2, 3, 4, 5, 6, 8, 10, 13, 17, 21, 30, 45, 70]))}
    return events, sch, t.choice([0.2, 0.2, 0.05])


def scheduled_cycle(flags, load, events, schedule, cost, knobs=None):
    ctx = session.SessionCtx(trigger=None, knobs=knobs or {})
    ctx.cost_per_guess = cost
    kb = sched.Keyboard(events)
    sim = sched.Sim(ctx, kb, schedule)
    sim.set_line_labels(find_labels())
    box = {}

    def body():
        box["r"] = session.run_main(resume.argv_for(flags, load), ctx, threading_obj=sim.threading,
                                    input_fn=sim.input, time_obj=sim.time)
        return box["r"]

    try:
        sched.run_scheduled(sim, body)
    except sched.SimDeadlock as e:
        r = box.get("r")
        if r is None:
            r = session.SessionResult()
            r.exc = "SimDeadlock: %s" % e
            r.lines = []
            r.ctx = ctx
            r.stdout = ""
        r.deadlock = str(e)
    r = box["r"] if "r" in box else r
    E = session.emitted_preterminals(ctx)
    ends = [e["first_line"] for e in E[1:]] + [ctx.nlines]
    for e, end in zip(E, ends):
        e["lines"] = ctx.guesses[e["first_line"]:end]
    r.emitted = E
    r.remainder = []
    for call in ctx.restore_omen_calls:
        r.remainder.extend(ctx.guesses[call[1]:call[2] if call[2] is not None else ctx.nlines])
    r.sim = sim
    return r


def judge(res, U, Ulines, r, wr, flags, tape, prior_oracle=None):
    """oracle for one scheduled cycle that started a new session"""
    ctx = r.ctx
    sim = r.sim
    S = r.lines
    total = len(Ulines)
    kb = sim.keyboard
    thr = [t for t in sim.threads if t is not sim.main]
    died = thr[0].exc if thr else None
    info = {"delivered": [(k, txt, at) for k, txt, at, _s in kb.delivered],
            "thread_died_by": type(died).__name__ if died is not None else None,
            "switches": sum(1 for e in sim.log if e[1] == "switch"),
            "lines": len(S), "reference_lines": total}
    if r.exc:
        return ("raised", dict(info, exception=r.exc[-1200:]))
    if getattr(r, "deadlock", None):
        return ("deadlock", dict(info, what=r.deadlock))
    se = ctx.should_exit_set_at
    if se is None:
        if S != Ulines:
            is_prefix = S == Ulines[:len(S)]
            return ("stream_changed_without_quit", dict(info, is_prefix=is_prefix))
        # bounded liveness under a fair schedule: in a directed case the keyboard thread has the higher priority, was handed
        # 'q' before the first guess and needs 0.1 virtual seconds; if it ended without ever reaching the line that sets
        # the flag although plenty of guesses followed, the explicit quit was swallowed
        q_seen = [d for d in kb.delivered if d[0] == "line" and d[1] == "q"]
        # (not judged when the status channel failed: the tool answers a 'q' on stderr before it sets the flag and gives the
        # keyboard thread up when that cannot be written -- an operation that failed under an injected I/O error; what must
        # still hold is that the stream is unaltered and that nothing becomes a quit that was not one)
        sink = getattr(ctx, "stderr_sink", None)
        if sim.sync is not None and sim.sync_state == "idle" and q_seen and thr and thr[0].finished and died is None \
                and total - q_seen[0][2] >= 12 and not (sink is not None and sink.fired):
            return ("explicit_quit_ignored", dict(info, q_delivered_after_lines=q_seen[0][2]))
        return None
    if not any(d[0] == "line" and d[1].strip() == "q" for d in kb.delivered):
        return ("quit_nobody_asked_for", dict(info, flag_set_after_lines=se[1]))
    g_s = se[1]
    info["flag_set_after_lines"] = g_s
    if S != Ulines[:len(S)]:
        first = next((i for i, (a, b) in enumerate(zip(S, Ulines)) if a != b), min(len(S), total))
        return ("not_a_prefix_after_quit", dict(info, first_difference=first))
    c = len(S)
    if c < g_s:
        return ("harness_inconsistency", info)
    # latest legal stop
    bound = total
    for e in U:
        end = e["first_line"] + len(e["lines"])
        if end > g_s:
            # the tool announces "Will exit after finishing processing current pre-terminal"; stopping earlier,
            # between two Markov guesses, is allowed but not demanded
            bound = end
            if resume.is_m(e["pt"]) and len(S) > g_s + 1:
                res.stats["markov_quit_not_at_next_guess"] += 1
            # flag set exactly at the start of e, before e was popped/checked: e may still be skipped
            break
    if c > bound and c != total:
        return ("quit_ignored_too_long", dict(info, stopped_after=c, latest_legal=bound))
    if c > bound and c == total and bound < total:
        # ran to the very end although the flag was set early enough to stop
        return ("quit_ignored_too_long", dict(info, stopped_after=c, latest_legal=bound))
    # legal cut position
    if c < total:
        legal = False
        for e in U:
            f, end = e["first_line"], e["first_line"] + len(e["lines"])
            if c == f or c == end:
                legal = True
                break
            if f < c < end and resume.is_m(e["pt"]):
                legal = True
                break
        if not legal:
            return ("cut_inside_preterminal", dict(info, stopped_after=c))
        sav_path = os.path.join(wr, "S.sav")
        try:
            sav = session.read_sav(sav_path)
            float(sav["guessing_info"]["max_probability"])
        except Exception as ex:
            return ("save_file_unusable_after_quit", dict(info, error=repr(ex)))
        cut_in_level = None
        for e in U:
            f, end = e["first_line"], e["first_line"] + len(e["lines"])
            if f < c < end and resume.is_m(e["pt"]):
                # a restored remainder continues the count of the process that was interrupted
                cut_in_level = c - f + e.get("omen_offset", 0)
        if cut_in_level is not None:
            if not os.path.exists(os.path.join(wr, "S.omn")):
                return ("omn_missing_after_quit_in_level", info)
            if sav["guessing_info"].get("omen_guess_number") != str(cut_in_level):
                return ("omen_guess_number_wrong", dict(info, saved=sav["guessing_info"].get("omen_guess_number"),
                                                        written_in_level=cut_in_level))
            res.faults["quit_inside_omen_level"] += 1
    return None


def run_one(tape, tier, prop):
    res = RunResult()
    t = tape
    res.stats["queue_size_knob_%s" % session.draw_queue_knob(t)] += 1
    spec = gen_world(t)
    flags = {"skip_brute": False, "skip_case": t.chance(1, 8)}
    wr = scratch.fresh_disk(scratch.draw_place(t))
    rdir = os.path.join(wr, "Rules", "R")
    worlds.write_ruleset(spec, rdir)
    r0 = resume.run_cycle(flags, load=False, trigger=None)
    if r0.exc:
        res.rejected = "reference_run_raised"
        return res
    U = r0.emitted
    Ulines = r0.lines
    total = len(Ulines)
    if total < 3 or total > 3000:
        res.rejected = "stream_size"
        return res
    cases = []
    if tier == "thorough" and t.chance(1, 4):
        # enumerate the thread-death point: EOF delivered after every guess index
        kind = t.choice(["eof", "closed", "ioerror"])
        sch = gen_schedule(t, total * 12)
        cost = t.choice([1e-6, 1e-3, 0.2])
        step = max(1, total // 60)
        for g in range(0, total + 1, step):
            cases.append(([{"at": g, "kind": kind, "text": None}], sch, cost))
    else:
        for _ in range(2 if tier == "quick" else 4):
            if t.chance(1, 3):
                cases.append(gen_directed(t, total))
            else:
                cases.append((gen_script(t, U, total), gen_schedule(t, total * 12),
                              t.choice([1e-4, 1e-3, 0.02, 0.05, 0.2, 0.2, 4000.0, 100000.0])))     # incl. clock jumps of hours/days
    sigs = []
    # variant: the scheduled process is a RESUMED one (a stand-in quit inside a Markov level came first), so
    # that status requests meet the stand-in item restore_omen installs and quits can land in the remainder
    resumed_variant = None
    mlev = [(m + 1, e) for m, e in enumerate([e for e in U if resume.is_m(e["pt"])]) if len(e["lines"]) >= 2]
    if mlev and tier != "thorough_enum" and t.chance(1, 4) and len(cases) <= 4:
        m, e = mlev[t.draw(len(mlev))]
        j = t.between(1, len(e["lines"]) - 1)
        resume.clean_sessions(wr)
        rq = resume.run_cycle(flags, load=False, trigger=("omen", m, j))
        if rq.ctx.fired and not rq.exc:
            state = {fn: open(os.path.join(wr, fn), "rb").read() for fn in ("S.sav", "S.omn") if os.path.exists(os.path.join(wr, fn))}
            rref = resume.run_cycle(flags, load=True, trigger=None)
            if not rref.exc and len(rref.lines) >= 2:
                Uref = list(rref.emitted)
                if rref.remainder:
                    Uref.insert(0, {"pt": (("M", -1),), "first_line": 0, "lines": list(rref.remainder), "prob": 1.0, "base_prob": 1.0,
                                     "omen_offset": j})
                resumed_variant = (state, Uref, rref.lines)
                res.faults["scheduled_process_is_a_resumed_one"] += 1
    for events, sch, cost in cases:
        resume.clean_sessions(wr)
        if resumed_variant is not None:
            state, Uv, Ulv = resumed_variant
            for fn, data in state.items():
                open(os.path.join(wr, fn), "wb").write(data)
            tot = len(Ulv)
            ev2 = [dict(e, at=min(e["at"], tot)) for e in events]
            if sch.get("sync") and Uv and Uv[0]["pt"] == (("M", -1),) and t.chance(1, 2):
                # the quit lands just as the restored level runs out: around the last next_guess() (the one that returns
                # None), the loop test after it, the return, and the line of run() that follows restore_omen()
                nrem = len(Uv[0]["lines"])
                lab = t.choice(["omen_next_guess", "omen_loop_test", "return_num_guesses", "after_expand", "omen_next_guess"])
                sch = dict(sch, sync=(lab, max(1, nrem + t.choice([-1, 0, 0, 1])) if lab.startswith("omen") else 1))
                res.stats["directed_quit_at_end_of_restored_level"] += 1
            r = scheduled_cycle(flags, True, ev2, sch, cost, knobs={"optimizer_max_length": t.draw(7)})
            res.stats["scheduled_sessions"] += 1
            res.sim_seconds += r.ctx.clock.now
            for k, v in r.ctx.kbd_faults.items():
                res.faults["stdin_" + k] += v
            thr = [x for x in r.sim.threads if x is not r.sim.main]
            if thr and thr[0].exc is not None:
                res.stats["thread_died_by_exception"] += 1
                res.stats["thread_died_in_resumed_session:" + type(thr[0].exc).__name__] += 1
            problem = judge(res, Uv, Ulv, r, wr, flags, t)
            sigs.append(r.sim.signature())
            if any(e[1] == "switch" and e[-1] > 1 for e in r.sim.log) or any(k not in ("line:", "line:q", "line:h") for k in r.ctx.kbd_faults):
                res.nontrivial = digest_of([spec["base"], spec["vars"], spec.get("omen_prob"), "resumed", r.sim.signature()])
            if problem is None and len(r.lines) < len(Ulv) and r.ctx.should_exit_set_at is not None:
                # a third sitting: what the real quit of the resumed process saved must resume to exactly the rest
                real = [e for e in Uv if e["pt"] != (("M", -1),)]
                oracle = resume.ResumeOracle(real, res)
                if Uv and Uv[0]["pt"] == (("M", -1),):
                    oracle.partial = (("restored", "level"), collections.Counter(Uv[0]["lines"]), list(Uv[0]["lines"]))
                r.ctx.fired = True
                r.ctx.fired_in = None
                last = r.emitted[-1] if r.emitted else None
                if last is not None and resume.is_m(last["pt"]):
                    k = resume.key_of(last)
                    if k in oracle.ulines and len(last["lines"]) < sum(oracle.ulines[k].values()):
                        r.ctx.fired_in = "omen"
                p1 = oracle.cycle(r, wr)
                if p1 is None:
                    r3 = resume.run_cycle(flags, load=True, trigger=None)
                    p1 = oracle.cycle(r3, wr)
                    res.stats["third_sitting_after_real_quit_of_resumed_process"] += 1
                if p1 is not None and not (len(p1) > 2 and p1[2]):
                    problem = ("saved_state_unusable:" + p1[0], dict(p1[1]))
            if problem is not None:
                det = dict(problem[1])
                det.update(events=repr(ev2), schedule=repr(sch), cost_per_guess=cost, resumed_session=True)
                res.violate("C12", problem[0] + "(resumed session)", det)
                break
            continue
        kn = {"optimizer_max_length": t.draw(7)}
        if t.chance(1, 6):
            # the status channel (stderr) cannot be written by the keyboard thread: a report that cannot be printed is no quit
            import errno
            kn["kbd_stderr_fault"] = (t.choice([errno.EPIPE, errno.EIO, errno.ENOSPC]), t.draw(3))
        r = scheduled_cycle(flags, False, [dict(e) for e in events], sch, cost, knobs=kn)
        if getattr(r.ctx, "stderr_sink", None) is not None:
            res.faults["status_report_cannot_be_written"] += r.ctx.stderr_sink.fired
        res.stats["scheduled_sessions"] += 1
        res.sim_seconds += r.ctx.clock.now
        for k, v in r.ctx.kbd_faults.items():
            res.faults["stdin_" + k] += v
        res.stats["priority_change_points_fired"] += r.sim.fired_changes
        if r.sim.sync is not None:
            res.stats["directed_quit_cases"] += 1
            if r.sim.sync_state in ("done", "finished"):
                res.faults["quit_flag_set_at_main_label:" + r.sim.sync[0]] += 1
        nsw = sum(1 for e in r.sim.log if e[1] == "switch")
        res.stats["switches"] += nsw
        thr = [x for x in r.sim.threads if x is not r.sim.main]
        if thr and thr[0].exc is not None:
            res.stats["thread_died_by_exception"] += 1
        if thr and thr[0].finished and r.ctx.should_exit_set_at is None and thr[0].exc is None:
            res.stats["thread_returned_without_quit"] += 1
        if r.ctx.should_exit_set_at is not None:
            res.stats["quit_effective"] += 1
        problem = judge(res, U, Ulines, r, wr, flags, t)
        sig = r.sim.signature()
        sigs.append(sig)
        concurrent = any(e[1] == "switch" and e[-1] > 1 for e in r.sim.log)
        if concurrent or any(k not in ("line:", "line:q", "line:h") for k in r.ctx.kbd_faults):
            res.nontrivial = digest_of([spec["base"], spec["vars"], spec.get("omen_prob"), sig])
        if problem is not None and len(problem) > 2:
            pass
        elif problem is None and len(r.lines) < total and r.ctx.should_exit_set_at is not None:
            # the saved state must be usable: resume with the stand-in to exhaustion
            oracle = resume.ResumeOracle(U, res)
            r.ctx.fired = True
            last = r.emitted[-1] if r.emitted else None
            r.ctx.fired_in = None
            if last is not None and resume.is_m(last["pt"]):
                k = resume.key_of(last)
                if k in oracle.ulines and len(last["lines"]) < sum(oracle.ulines[k].values()):
                    r.ctx.fired_in = "omen"
            p1 = oracle.cycle(r, wr)
            if p1 is None:
                r2 = resume.run_cycle(flags, load=True, trigger=None)
                p1 = oracle.cycle(r2, wr)
                res.stats["resumed_after_real_quit"] += 1
            if p1 is not None:
                if len(p1) > 2 and p1[2]:
                    res.violate("C12", p1[0], dict(p1[1], events=repr(events), schedule=repr(sch)), key=p1[2])
                else:
                    problem = ("saved_state_unusable:" + p1[0], dict(p1[1]))
        if problem is not None:
            det = dict(problem[1])
            det["events"] = repr(events)
            det["schedule"] = repr(sch)
            det["cost_per_guess"] = cost
            key = problem[2] if len(problem) > 2 else None
            res.violate("C12", problem[0], det, key=key)
            if key is None:
                break
    res.sample = {"ruleset": worlds.spec_summary(spec), "flags": flags,
                  "cases": [{"events": e, "schedule": s, "cost_per_guess": c} for e, s, c in cases[:2]],
                  "reference_lines": total}
    res.interleaving = tuple(sigs)
    res.shape = tuple(tuple(e["kind"] for e in ev) for ev, _, _ in cases[:4])
    res.digest = digest_of([Ulines, [list(map(repr, s)) for s in sigs], [v.as_dict() for v in res.violations]])
    return res


# ---------------------------------------------------------------------------
# the real program on a real stdin pipe (validation of the keyboard seam: the scheduler scripts input(); a change that
# reads standard input some other way -- select(), readline() on the buffer -- would walk past that seam)

def _real_keyboard_case(name, writes, session_name, close_after=False):
    """writes: [(delay_s, bytes)] written to a stdin pipe that stays open.  Real time is involved, so the cut point is not
    reproducible; the verdict does not depend on it: after the quit has been written the process must end by itself, with
    a save file, and what it wrote must be a prefix of the stream of an uninterrupted run."""
    import subprocess
    import threading
    import time
    from .. import bigworld
    code = scratch.code_dir()
    os.makedirs(os.path.join(code, "Rules"), exist_ok=True)
    lnk = os.path.join(code, "Rules", "Default")
    if not os.path.islink(lnk) and not os.path.exists(lnk):
        try:
            os.symlink(bigworld.tool_dir("Default"), lnk)
        except FileExistsError:
            pass
    for ext in (".sav", ".omn"):
        p = os.path.join(code, session_name + ext)
        if os.path.exists(p):
            os.unlink(p)
    argv = [sys.executable, "-W", "ignore", os.path.join(code, "pcfg_guesser.py"), "-r", "Default", "-s", session_name]
    proc = subprocess.Popen(argv, stdin=subprocess.PIPE, stdout=subprocess.PIPE, stderr=subprocess.DEVNULL,
                            env=scratch.child_env(PYTHONUTF8="1"))
    chunks = []

    def pump():
        while True:
            b = proc.stdout.read(1 << 16)
            if not b:
                return
            chunks.append(b)
    th = threading.Thread(target=pump, daemon=True)
    th.start()
    out = {"case": name, "problem": None, "lines": 0}
    try:
        for delay, data in writes:
            time.sleep(delay)
            try:
                proc.stdin.write(data)
                proc.stdin.flush()
            except OSError:
                break
        if close_after:
            # end of input right after the last (unterminated) line
            try:
                proc.stdin.close()
            except OSError:
                pass
        try:
            rc = proc.wait(timeout=120)
        except subprocess.TimeoutExpired:
            proc.kill()
            proc.wait()
            out["problem"] = ("explicit_quit_ignored(real process)", {"case": name, "written": repr([w for _, w in writes]),
                                                                      "waited_s": 120})
            return out
        th.join(timeout=30)
        text = b"".join(chunks)
        lines = text.split(b"\n")[:-1]
        out["lines"] = len(lines)
        if rc != 0:
            out["problem"] = ("process_failed_after_quit", {"case": name, "returncode": rc})
            return out
        if not os.path.exists(os.path.join(code, session_name + ".sav")):
            out["problem"] = ("no_save_file_after_quit", {"case": name})
            return out
        if lines:
            ref = subprocess.run(argv[:-2] + ["-s", session_name + "_ref", "--limit", str(len(lines))], stdin=subprocess.DEVNULL,
                                 stdout=subprocess.PIPE, stderr=subprocess.DEVNULL, env=scratch.child_env(PYTHONUTF8="1"), timeout=600)
            if ref.stdout != text:
                rl = ref.stdout.split(b"\n")[:-1]
                k = next((i for i, (a, b) in enumerate(zip(lines, rl)) if a != b), min(len(lines), len(rl)))
                out["problem"] = ("not_a_prefix_after_quit(real process)", {"case": name, "lines": len(lines),
                                                                            "first_difference_at_line": k})
    finally:
        try:
            proc.stdin.close()
        except OSError:
            pass
        for nm in (session_name, session_name + "_ref"):
            for ext in (".sav", ".omn"):
                p = os.path.join(code, nm + ext)
                if os.path.exists(p):
                    os.unlink(p)
    return out


def extra_phase(tier, base_seed):
    from .. import bigworld
    out = {"real_process_keyboard_cases": 0, "real_process_lines": 0, "violations": []}
    if "Default" not in bigworld.available():
        return out
    cases = [("status_and_quit_in_one_write", [(3.0, b"\nq\n")]),
             ("quit_alone", [(3.0, b"q\n")]),
             ("help_status_quit_spaced", [(2.5, b"h\n"), (0.4, b"\n"), (0.4, b"q\n")]),
             ("three_lines_in_one_write_before_start", [(0.0, b"zz\n\nq\n")], False),
             ("unterminated_quit_then_end_of_input", [(3.0, b"q")], True),
             ("status_then_unterminated_quit_then_end_of_input", [(2.5, b"\n"), (0.5, b"q")], True)]
    cases = [c if len(c) == 3 else (c[0], c[1], False) for c in cases]
    if tier == "quick":
        cases = [cases[0], cases[1], cases[4]]
    jobs = [(nm, wr_, "RK%d_%d" % (base_seed % 1000, i), cl) for i, (nm, wr_, cl) in enumerate(cases)]
    for r in bigworld._fan_out(_real_keyboard_case, jobs, workers=6):
        out["real_process_keyboard_cases"] += 1
        out["real_process_lines"] += r["lines"]
        if r["problem"]:
            out["violations"].append({"seed": base_seed, "tape": [], "violation": {
                "property": "C12", "kind": r["problem"][0], "key": None, "detail": r["problem"][1]}, "case": None})
    import shutil
    shutil.rmtree(os.path.join(scratch.code_dir(), "Rules"), ignore_errors=True)
    return out
