"""C05 and C06: what the trainer learns and what it writes.

C05  every parse of every simulated training run (and of dedicated runs that drive the
     parser directly after a generated *history* of detector training calls) is checked
     against RefSeg, and the parser's counters against RefTally.
C06  the bytes on the scratch disk against RefTally (relative frequencies, ordering,
     Markov pseudo-count, unsupported structures), plus determinism under a changed
     environment: second training with another uuid seed into a directory that already
     holds an *older ruleset* (stale durable state), and (extra phase) in fresh interpreters
     under other hash seeds.
"""

import collections
import hashlib
import json
import os
import subprocess
import sys

from .. import guesser, scratch, trainer
from ..refseg import AlphaHistory, Tally, check_segmentation
from ..runner import RunResult, digest_of

CONFIGS = {
    "C05": {
        "level": "exploration",
        "rule": "one run = (a) a generated training list (words, multi-words, digits, years, symbols, keyboard walks on both layouts, "
                "context strings, e-mail/URL, non-ASCII, non-BMP, trigger patterns touching/overlapping) through the real 3-pass "
                "trainer with every parse captured, or (b) a generated history of MultiWordDetector.train / train(set_threshold) / "
                "PCFGPasswordParser.parse calls in varying order; oracle RefSeg (tiling, typed, length labels, digit maximality, "
                "alpha-only, multi-word split justified by a plain Counter fed with the same history, year/keyboard/context/other "
                "soundness) and RefTally == parser counters; non-trivial = parse with >= 3 segments or a multi-word split; "
                "distinct = distinct (history, password)",
        "components": {"real": ["all lib_trainer.detection_rules", "PCFGPasswordParser", "MultiWordDetector", "TrainerFileInput",
                                "run_trainer"], "stub": ["uuid", "stdout sinks"]},
        "assumptions": ["RefSeg judges soundness of labels, not completeness of detection"],
        "quick_budget_s": 30, "thorough_budget_s": 600, "chunk": 8,
    },
    "C06": {
        "level": "exploration",
        "rule": "one run = generated training list x coverage {0,0.1,0.5,0.6,0.9,1} x n-gram x alphabet size through the real trainer "
                "on the scratch disk; every list file against RefTally (each item once, count/total within 4 ulps, descending, sum 1), "
                "grammar.txt Markov line = N(1/c-1)/(S+N(1/c-1)), absent for c=1, alone for c=0, no E/W structure in grammar.txt, "
                "raw_grammar.txt has all; then the same list is trained again with another uuid seed into a directory that still holds "
                "a ruleset trained from a *different* list (stale state) and must be byte-identical except the uuid line; extra phase: "
                "fresh interpreters under PYTHONHASHSEED 1 and 12345; non-trivial = list with >= 2 distinct base structures and a tie "
                "in some counter; distinct = distinct (list, options)",
        "components": {"real": ["run_trainer", "calculate_probabilities", "save_pcfg_data", "config_file", "omen_file_output"],
                       "stub": ["uuid (seeded)", "stdout sinks"]},
        "assumptions": [],
        "quick_budget_s": 30, "thorough_budget_s": 600, "chunk": 6,
    },
}

U0130 = "İ"


def warm():
    import lib_trainer.run_trainer   # noqa
    trainer.install()


def tree_hash(root, skip_uuid=True, skip_prefixes=(b"uuid =",)):
    out = {}
    for dp, dn, fns in os.walk(root):
        dn.sort()
        for fn in sorted(fns):
            p = os.path.join(dp, fn)
            data = open(p, "rb").read()
            if skip_uuid and fn == "config.ini":
                data = b"\n".join(l for l in data.split(b"\n") if not l.startswith(tuple(skip_prefixes)))
            out[os.path.relpath(p, root)] = hashlib.sha1(data).hexdigest()
    return out


def counters_equal(name, real, want):
    """real: Counter or dict-of-Counter from the parser; want: same shape from Tally"""
    if isinstance(want, collections.Counter):
        r = collections.Counter({k: v for k, v in real.items() if v})
        if r != want:
            return (name, repr(list((r - want).items())[:3]), repr(list((want - r).items())[:3]))
        return None
    keys = set(real) | set(want)
    for k in keys:
        r = collections.Counter({a: b for a, b in real.get(k, {}).items() if b})
        w = want.get(k, collections.Counter())
        if r != w:
            return ("%s[%s]" % (name, k), repr(list((r - w).items())[:3]), repr(list((w - r).items())[:3]))
    return None


def check_parses(res, prop, parses, hist, key_fn=None):
    nontriv = 0
    for pw, sections in parses:
        if sections is None:
            res.violate(prop, "parse_did_not_finish", {"password": pw})
            return nontriv
        p = check_segmentation(pw, sections, hist)
        if p:
            key = "U+0130-lowercase-expands" if (U0130 in pw and p[0] in (
                "multiword_split_not_justified", "not_a_tiling", "alpha_segment_with_non_letter", "length_label_wrong",
                "empty_segment")) else None
            res.violate(prop, p[0], dict(p[1], password=pw, sections=repr(sections)), key=key)
            if key is None:
                return nontriv
        labels = [l for _, l in sections]
        if len(sections) >= 3 or sum(1 for a, b in zip(labels, labels[1:]) if a[0] == "A" and b[0] == "A"):
            nontriv += 1
    return nontriv


def run_c05(t, tier, res):
    mode = t.draw(3)
    flavour = {"nonascii": t.chance(1, 3), "sites": t.chance(1, 3), "nonbmp": t.chance(1, 6), "awkward": t.chance(1, 12),
               "tricky": t.chance(2, 3), "zoo": t.chance(1, 4), "large": t.chance(1, 30 if tier == "quick" else 8)}
    if mode < 2:
        pws, opts = trainer.gen_list(t, flavour)
        extra = ["1qaz2019", "#12019", "a@b.comwww.c.org", "No.1qaz", "password2019monkey", "x19991999", "qwer1234asdf",
                 "Mr.Smith1987!", "i<3you", "test.com/abc", "йцук123", "12345", "passwordpassword"]
        for _ in range(t.draw(4)):
            pws.append(extra[t.draw(len(extra))])
        wr = scratch.fresh_disk()
        mw_words = None
        if t.chance(1, 4):
            # --multiword FILE: words that count as base words from the start (pre-training with set_threshold)
            mw_words = [t.choice(trainer.WORDS + ["pass", "word", "qwerty12", "ab", "love!", "Dragon"]) for _ in range(t.between(1, 6))]
            mwf = os.path.join(wr, "multiword.txt")
            with open(mwf, "wb") as f:
                f.write("".join(w + "\n" for w in mw_words).encode(opts["encoding"]))
            opts = dict(opts, multiword=mwf)
            res.stats["multiword_pretraining_file"] += 1
        tr = trainer.train(pws, opts)
        if flavour.get("large"):
            res.stats["large_lists_trained" if tr.ok else "large_lists_not_trained"] += 1
        res.sample = {"mode": "trainer", "passwords": pws[:14], "n": len(pws), "opts": {k: v for k, v in opts.items() if k != "multiword"},
                      "multiword_file": mw_words}
        if tr.exc and "parse" in tr.exc:
            res.violate("C05", "parse_raised", {"exception": tr.exc[-900:]})
            return
        if not tr.cap.parses:
            res.rejected = "trainer_failed_before_parsing"
            return
        hist = AlphaHistory()
        reads = list(tr.cap.reads)
        if mw_words is not None and reads:
            for w in reads.pop(0):
                hist.train(w, set_threshold=True)
        for pw in (reads[0] if reads else []):
            hist.train(pw)
        nt = check_parses(res, "C05", tr.cap.parses, hist)
        parser = tr.cap.parser
        parses = [(p, s) for p, s in tr.cap.parses if s is not None]
    else:
        from lib_trainer.detection_rules.multiword_detector import MultiWordDetector
        from lib_trainer.pcfg_password_parser import PCFGPasswordParser
        mwd = MultiWordDetector(threshold=5, min_len=4, max_len=21)
        parser = PCFGPasswordParser(mwd)
        hist = AlphaHistory()
        pool = [trainer.gen_password(t, flavour) for _ in range(t.between(2, 6))]
        pool = [p for p in pool if p] or ["password"]
        ops = []
        parses = []
        nt = 0
        for _ in range(t.between(4, 30)):
            op = t.draw(5)
            pw = pool[t.draw(len(pool))]
            if op <= 1:
                mwd.train(pw)
                hist.train(pw)
                ops.append(("train", pw))
            elif op == 2 and t.chance(1, 3):
                mwd.train(pw, set_threshold=True)
                hist.train(pw, set_threshold=True)
                ops.append(("pretrain", pw))
            else:
                cap = trainer.Capture()
                trainer._CAP[0] = cap
                try:
                    parser.parse(pw)
                except Exception:
                    import traceback
                    res.violate("C05", "parse_raised", {"password": pw, "ops": repr(ops[-6:]),
                                                        "exception": traceback.format_exc()[-700:]})
                    return
                finally:
                    trainer._CAP[0] = None
                ops.append(("parse", pw))
                nt += check_parses(res, "C05", cap.parses, hist)
                parses.extend((p, s) for p, s in cap.parses if s is not None)
                if any(v.key is None for v in res.violations):
                    return
        res.sample = {"mode": "detector-history", "ops": ops[:20]}
        res.stats["detector_history_ops"] += len(ops)
    # counters are exactly the tallies
    tally = Tally()
    for _, s in parses:
        tally.add(s)
    skip = any(U0130 in p for p, _ in parses)
    if not skip and not res.violations:
        for name, real, want in (("count_alpha", parser.count_alpha, tally.alpha), ("count_alpha_masks", parser.count_alpha_masks, tally.masks),
                                 ("count_digits", parser.count_digits, tally.digits), ("count_other", parser.count_other, tally.other),
                                 ("count_keyboard", parser.count_keyboard, tally.keyboard), ("count_years", parser.count_years, tally.years),
                                 ("count_context_sensitive", parser.count_context_sensitive, tally.context),
                                 ("count_emails", parser.count_emails, tally.emails),
                                 ("count_email_providers", parser.count_email_providers, tally.providers),
                                 ("count_website_urls", parser.count_website_urls, tally.urls),
                                 ("count_raw_base_structures", parser.count_raw_base_structures, tally.raw_base),
                                 ("count_prince", parser.count_prince, tally.prince)):
            bad = counters_equal(name, real, want)
            if bad:
                res.violate("C05", "counter_is_not_the_tally", {"counter": bad[0], "only_in_parser": bad[1], "only_in_tally": bad[2]})
                break
        else:
            # count_base_structures may have been adjusted for the Markov structure by run_trainer
            real = collections.Counter({k: v for k, v in parser.count_base_structures.items() if k != "M" and v})
            if mode < 2 and "M" in parser.count_base_structures and set(parser.count_base_structures) == {"M"}:
                pass
            elif real != tally.base:
                res.violate("C05", "counter_is_not_the_tally", {"counter": "count_base_structures",
                                                                "only_in_parser": repr(list((real - tally.base).items())[:3]),
                                                                "only_in_tally": repr(list((tally.base - real).items())[:3])})
    res.stats["parses"] += len(parses)
    res.nontrivial = digest_of(res.sample) if nt else None
    res.shape = (mode, len(parses) // 5)
    res.digest = digest_of([[(p, s) for p, s in parses], [v.as_dict() for v in res.violations]])


# ---------------------------------------------------------------------------
# C06

def read_list(path, enc):
    out = []
    from ..refmodel import _file_bytes
    data, enc = _file_bytes(path, enc)          # (a codec with a signature marks the file once, at its start)
    for raw in data.split(b"\n"):
        if raw == b"":
            continue
        v, p = raw.rsplit(b"\t", 1)
        out.append((v.decode(enc, "surrogateescape"), float(p)))
    return out


def check_list_file(path, enc, counter, what):
    """returns None or (kind, detail)"""
    if not counter:
        if os.path.exists(path) and open(path, "rb").read().strip():
            return ("file_for_empty_counter", {"file": what})
        return None
    if not os.path.exists(path):
        return ("list_file_missing", {"file": what})
    got = read_list(path, enc)
    total = sum(counter.values())
    seen = collections.Counter(v for v, _ in got)
    if any(c > 1 for c in seen.values()):
        return ("item_listed_twice", {"file": what, "items": [v for v, c in seen.items() if c > 1][:3]})
    if set(seen) != set(counter):
        return ("items_differ", {"file": what, "missing": sorted(set(counter) - set(seen))[:3],
                                 "extra": sorted(set(seen) - set(counter))[:3]})
    prev = None
    s = 0.0
    for v, p in got:
        want = counter[v] / total
        if abs(p - want) > 1e-15 * max(want, 1e-300) * 4:
            return ("probability_not_relative_frequency", {"file": what, "item": v, "saved": p, "count": counter[v], "total": total})
        if prev is not None and p > prev:
            return ("not_descending", {"file": what, "item": v})
        prev = p
        s += p
    if abs(s - 1.0) > 1e-9:
        return ("does_not_sum_to_one", {"file": what, "sum": s})
    return None


def check_ruleset_against_tally(rdir, enc, tally, opts, n_valid):
    sub = [("Alpha", tally.alpha), ("Capitalization", tally.masks), ("Digits", tally.digits), ("Other", tally.other),
           ("Keyboard", tally.keyboard)]
    for d, groups in sub:
        files = {fn for fn in os.listdir(os.path.join(rdir, d))}
        want_files = {"%d.txt" % k for k, c in groups.items() if c}
        if files != want_files:
            return ("file_set_differs", {"directory": d, "on_disk": sorted(files), "expected": sorted(want_files)})
        for k, c in groups.items():
            p = check_list_file(os.path.join(rdir, d, "%d.txt" % k), enc, c, "%s/%d.txt" % (d, k))
            if p:
                return p
    for path, c in (("Years/1.txt", tally.years), ("Context/1.txt", tally.context),
                    ("Emails/email_providers.txt", tally.providers)):
        p = check_list_file(os.path.join(rdir, path), enc, c, path)
        if p:
            return p
    if opts.get("save_sensitive"):
        for path, c in (("Emails/full_emails.txt", tally.emails), ("Websites/website_urls.txt", tally.urls)):
            p = check_list_file(os.path.join(rdir, path), enc, c, path)
            if p:
                return p
    else:
        for path in ("Emails/full_emails.txt", "Websites/website_urls.txt"):
            if os.path.exists(os.path.join(rdir, path)):
                return ("sensitive_file_written_without_request", {"file": path})
    p = check_list_file(os.path.join(rdir, "Prince", "grammar.txt"), "ascii", tally.prince, "Prince/grammar.txt")
    if p:
        return p
    p = check_list_file(os.path.join(rdir, "Grammar", "raw_grammar.txt"), "ascii", tally.raw_base, "Grammar/raw_grammar.txt")
    if p:
        return p
    # grammar.txt with the Markov pseudo count
    cov = opts["coverage"]
    want = collections.Counter(tally.base)
    if cov == 0:
        want = collections.Counter({"M": 1})
    elif cov != 1:
        want["M"] = n_valid / cov - n_valid
    got = read_list(os.path.join(rdir, "Grammar", "grammar.txt"), "ascii")
    if any(("E" in s or "W" in s) for s, _ in got):
        return ("unsupported_structure_in_grammar", {"structures": [s for s, _ in got if "E" in s or "W" in s][:3]})
    if cov == 1 and any(s == "M" for s, _ in got):
        return ("markov_structure_present_for_coverage_1", {})
    if cov == 0 and [s for s, _ in got] != ["M"]:
        return ("coverage_0_has_other_structures", {"structures": [s for s, _ in got][:4]})
    want = collections.Counter({k: v for k, v in want.items() if v})
    total = sum(want.values())
    if not want:
        # every structure of the list is unsupported (e-mail/website) and there is no Markov mass: nothing to write
        if got:
            return ("base_structures_differ", {"on_disk": [s for s, _ in got][:6], "expected": []})
        return None
    if {s for s, _ in got} != set(want) or len(got) != len(want):
        return ("base_structures_differ", {"on_disk": [s for s, _ in got][:6], "expected": sorted(want)[:6]})
    prev = None
    s = 0.0
    for st, p in got:
        w = want[st] / total
        if abs(p - w) > 4e-15 * max(w, 1e-300):
            return ("base_structure_probability_wrong", {"structure": st, "saved": p, "expected": w, "coverage": cov, "N": n_valid})
        if prev is not None and p > prev:
            return ("not_descending", {"file": "Grammar/grammar.txt", "item": st})
        prev = p
        s += p
    if abs(s - 1.0) > 1e-9:
        return ("does_not_sum_to_one", {"file": "Grammar/grammar.txt", "sum": s})
    return None


def run_c06(t, tier, res):
    enc = t.choice(["utf-8", "utf-8", "utf-8", "utf-8-sig", "iso-8859-1", "cp1251"])
    flavour = {"nonascii": t.chance(1, 3), "sites": t.chance(1, 2), "nonbmp": enc.startswith("utf-8") and t.chance(1, 8),
               "zoo": enc.startswith("utf-8") and t.chance(1, 5), "large": t.chance(1, 30 if tier == "quick" else 8), "encoding": enc}
    pws, opts = trainer.gen_list(t, flavour)
    if t.chance(1, 12):
        import math
        opts["coverage"] = t.choice([0.9999999995, 0.999999999999, math.nextafter(1.0, 0.0), 1e-10, 5e-324])
    elif t.chance(1, 3):
        opts["coverage"] = round(t.between(1, 99) / 100.0, 2)
    elif t.chance(1, 5):
        opts["coverage"] = t.choice([1e-06, 0.0001, 0.001, 0.999999])     # probabilities far below 1e-4 / Markov mass near 0
    wr = scratch.fresh_disk()
    fault = None
    if t.chance(1, 8):
        # a disk that fails one write (or one close) of one rules file and is healthy afterwards: the training either
        # reports failure or leaves lists that are complete
        fault = (t.between(1, 40), t.choice([0, 1, 1, 2, 3, 5, 9]), t.choice([1, 1, 1, 2, 5]))
    tr = trainer.train(pws, opts, uuid_seed=1, write_fault=fault)
    if tr.disk is not None and tr.disk.fired:
        res.faults["transient_write_error_in_rules_file"] += 1
        res.stats["write_error_then_training_reported_%s" % ("success" if tr.ok else "failure")] += 1
        res.sim_seconds += tr.slept
    if flavour.get("large"):
        res.stats["large_lists_trained" if tr.ok else "large_lists_not_trained"] += 1
    res.sample = {"passwords": pws[:14], "n": len(pws), "opts": opts}
    if not tr.ok:
        res.rejected = "trainer_failed"
        return
    if any(U0130 in p for p in pws):
        res.rejected = "U+0130(C05 known finding)"
        return
    tally = Tally()
    for pw, s in tr.cap.parses:
        if s is not None:
            tally.add(s)
    n_valid = len(tr.cap.reads[0]) if tr.cap.reads else len(pws)
    p = check_ruleset_against_tally(tr.rule_dir, opts["encoding"], tally, opts, n_valid)
    if p:
        res.violate("C06", p[0], p[1])
    # config counts
    import configparser
    cfg = configparser.ConfigParser()
    cfg.read(os.path.join(tr.rule_dir, "config.ini"))
    if cfg.get("TRAINING_DATASET_DETAILS", "number_of_passwords_in_set") != str(n_valid):
        res.violate("C06", "config_password_count_wrong", {"config": cfg.get("TRAINING_DATASET_DETAILS", "number_of_passwords_in_set"),
                                                           "yielded": n_valid})
    for sec, d in (("BASE_A", "Alpha"), ("BASE_D", "Digits"), ("BASE_O", "Other"), ("BASE_K", "Keyboard"),
                   ("CAPITALIZATION", "Capitalization"), ("BASE_X", "Context"), ("BASE_Y", "Years")):
        listed = sorted(json.loads(cfg.get(sec, "filenames")))
        on_disk = sorted(os.listdir(os.path.join(tr.rule_dir, d)))
        if listed != on_disk:
            res.violate("C06", "config_file_list_differs_from_directory", {"section": sec, "listed": listed, "on_disk": on_disk})
            break
    h1 = tree_hash(tr.rule_dir)
    # determinism: train the same list again over a directory that holds an older, different ruleset
    other, oopts = trainer.gen_list(t, {"nonascii": True, "sites": True})
    oopts["encoding"] = opts["encoding"]
    other = [p for p in other if trainer.representable(p, opts["encoding"])] or ["zzzz9999"]
    tr_old = trainer.train(other, oopts, rule="R2", uuid_seed=7, filename="old.txt")
    tr2 = trainer.train(pws, opts, rule="R2", uuid_seed=99)
    res.faults["retrain_over_stale_ruleset"] += 1 if tr_old.ok else 0
    if not tr2.ok:
        res.violate("C06", "second_training_failed", {"exception": (tr2.exc or "")[-600:]})
    else:
        h2 = tree_hash(tr2.rule_dir)
        if h1 != h2:
            diff = sorted(k for k in set(h1) | set(h2) if h1.get(k) != h2.get(k))
            res.violate("C06", "retraining_not_byte_identical", {"files": diff[:6], "stale_ruleset_present": bool(tr_old.ok)})
    structs = len(tally.base)
    tie = any(len(set(c.values())) < len(c) for grp in (tally.alpha, tally.digits, tally.other) for c in grp.values())
    res.nontrivial = digest_of([pws, opts]) if (structs >= 2 and tie) else None
    res.stats["coverage_%s" % opts["coverage"]] += 1
    res.shape = (opts["coverage"] in (0, 1), opts["ngram"], structs)
    res.digest = digest_of([h1, [v.as_dict() for v in res.violations]])


def run_one(tape, tier, prop):
    res = RunResult()
    with guesser.streams():
        {"C05": run_c05, "C06": run_c06}[prop](tape, tier, res)
    return res


# ---------------------------------------------------------------------------
# fresh-interpreter determinism (other hash seeds)

def child_hashes(seeds):
    from ..tape import Tape
    out = {}
    for s in seeds:
        t = Tape(seed=s)
        flavour = {"nonascii": t.chance(1, 3), "sites": t.chance(1, 2), "nonbmp": t.chance(1, 8)}
        pws, opts = trainer.gen_list(t, flavour)
        if flavour["sites"]:
            # addresses and hosts in which more than one known top-level domain occurs: which one ends the segment must not
            # depend on the order a set happens to iterate in
            for _ in range(t.between(1, 3)):
                pws.insert(t.draw(len(pws) + 1), t.choice(trainer.EMAILS[3:] + trainer.SITES[3:]) + t.choice(["", "1", "!", "99"]))
        scratch.fresh_disk()
        with guesser.streams():
            tr = trainer.train(pws, opts, uuid_seed=s % 1000)
        out[str(s)] = tree_hash(tr.rule_dir) if tr.ok else None
    return out


def extra_phase(tier, base_seed, prop="C06"):
    if prop != "C06":
        return {}
    n = 40 if tier == "quick" else 300
    seeds = [base_seed * 31337 + 5000 + i for i in range(n)]
    runs = []
    here = os.path.dirname(os.path.dirname(os.path.dirname(os.path.abspath(__file__))))
    for hs in ("0", "1", "12345", "987"):
        env = dict(os.environ, PYTHONHASHSEED=hs, PYTHONUTF8="1")
        code = ("import sys, json; sys.path.insert(0, %r); from pcfgsim import scratch; scratch.build(); "
                "from pcfgsim.checks import training; training.warm(); "
                "json.dump(training.child_hashes(%r), sys.stdout)" % (here, seeds))
        r = subprocess.run([sys.executable, "-W", "ignore", "-c", code], env=env, capture_output=True, text=True, timeout=1200)
        if r.returncode != 0:
            raise RuntimeError("child interpreter failed: " + r.stderr[-1500:])
        runs.append(json.loads(r.stdout))
    out = {"fresh_interpreter_trainings": 4 * n, "hash_seeds": [0, 1, 12345, 987], "violations": []}
    for s in seeds:
        a, b, c, d = (r[str(s)] for r in runs)
        if not (a == b == c == d):
            diff = sorted(k for k in set(a or {}) | set(b or {}) | set(c or {}) | set(d or {})
                          if not ((a or {}).get(k) == (b or {}).get(k) == (c or {}).get(k) == (d or {}).get(k)))
            out["violations"].append({"seed": s, "tape": [], "violation": {
                "property": "C06", "kind": "ruleset_depends_on_hash_seed", "key": None,
                "detail": {"list_seed": s, "files": diff[:6]}}, "case": None})
            break
    return out
