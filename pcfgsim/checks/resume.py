"""C08 and C15: quit / resume histories over the real save files.

One run = one synthetic ruleset + the uninterrupted reference stream U (real code, no
fault) + several quit/resume histories.  Every cycle is a new process image:
``pcfg_guesser.main()`` is entered again with ``--load`` and only ``S.sav`` / ``S.omn`` on
the scratch disk survive.  C08 cuts at pops; C15 cuts inside a Markov level (after its
j-th guess), inside the restored remainder, and at later points.  The thorough tier
enumerates every cut point of the sampled world (fault enumeration).
"""

import collections
import os
import shutil

from .. import scratch, session, worlds
from ..refmodel import RefOmen, RefRuleset
from ..runner import RunResult, digest_of

_COMPONENTS = {
    "real": ["pcfg_guesser.main/create_save_config/load_save", "CrackingSession.run/_save_session", "PcfgQueue (restore path)",
             "PcfgGrammar.restore_prob_order/is_parent_around/restore_omen/omen_generate_guesses",
             "MarkovCracker.save_session/load_session (pickle .omn)", "StatusReport.load/update_save_config",
             "configparser .sav on tmpfs"],
    "stub": ["keyboard thread (stand-in that flips should_exit and liveness together at the chosen point)",
             "virtual clock/datetime", "stdout/stderr recorders"],
}
CONFIGS = {
    "C08": {
        "level": "fault_enumeration",
        "rule": "one run = one synthetic ruleset (tie-heavy pools, <= 250 pre-terminals) x flags; U = uninterrupted stream through "
                "pcfg_guesser.main(); histories = sequences of quit points (k-th pop, or a quit already pending when the process starts / restores) each followed "
                "by a --load cycle in a new process image with only S.sav surviving; quick: every single cut k=1..|U| when |U| <= 24, plus 5 sampled histories of 1-4 cuts; thorough: every single "
                "cut of every world (150 evenly spaced cuts beyond 150 pre-terminals), every third followed by a pending quit, plus 8 sampled multi-cycle histories; plus retrain-between-quit-and-resume (uuid) probes; oracle RefResume (nothing needed is "
                "lost, non-increasing, nothing above the saved probability, repeats only at exactly the saved probability); "
                "non-trivial = world with >= 2 pre-terminals of exactly equal probability (so cuts land in tie groups); "
                "distinct = distinct (ruleset, flags, cut sequences)",
        "components": _COMPONENTS,
        "assumptions": ["the quit is noticed after a pop, as the session loop does; thread scheduling is C12's subject",
                        "seeded runs: each cycle re-enters main() in the same interpreter with fresh grammar/queue/session objects; the fresh-interpreter phase runs every cycle of a few worlds in a child interpreter with its own PYTHONHASHSEED",
                        "flags are repeated on the --load command line (flags-from-save is C14's clause)"],
        "quick_budget_s": 35, "thorough_budget_s": 900, "chunk": 6,
    },
    "C15": {
        "level": "fault_enumeration",
        "rule": "one run = synthetic ruleset with an M structure + synthetic OMEN model whose listed levels hold 2..400 strings; "
                "A = quit right after the j-th guess of a Markov level; B = --load in a new process image (empty memo table, "
                "optimizer size drawn per process); tail = 0-3 further cycles (quit at a pop, pending at start, inside the restored remainder, "
                "inside a later level); quick: every j of one level of <= 24 strings plus 4 sampled (level, j, tail) histories incl. j=1 and j=n; "
                "thorough: the first three levels, every j up to 80 strings (80 strided positions and both ends beyond) with tails; oracle: restored remainder = exactly the missing strings of the level "
                "(multiset), never replayed by later cycles, rest of the run satisfies the C08 oracle; "
                "non-trivial = quit strictly inside a level (0 < j < n); distinct = distinct (world, history)",
        "components": _COMPONENTS,
        "assumptions": ["order of the restored remainder relative to the uninterrupted run is recorded as a probe, not judged",
                        "seeded runs: each cycle re-enters main() in the same interpreter with fresh grammar/queue/session/optimizer objects; the fresh-interpreter phase runs every cycle of a few worlds in a child interpreter with its own PYTHONHASHSEED"],
        "quick_budget_s": 35, "thorough_budget_s": 900, "chunk": 6,
    },
}


def warm():
    import pcfg_guesser   # noqa
    session.install()


SESSION = ["S"]        # the --session name of the run (other checks that borrow argv_for keep "S")
SESSION_NAMES = ["S", "S", "canvas", "tests", "pass", "linkedin_hashes", "v", "run.1", "sess a", "data.sav"]


def argv_for(flags, load=False):
    a = ["-r", "R", "-s", SESSION[0]]
    if load:
        a.append("--load")
    # the flags are repeated on --load cycles: whether they are also taken from the save file
    # when omitted is C14's clause, not this one
    if flags["skip_brute"]:
        a.append("--skip_brute")
    if flags["skip_case"]:
        a.append("--all_lower")
    return a


def key_of(e):
    return (e["base_prob"], e["pt"])


_FRESH = [None]      # when set: a callable giving the string-hash seed of the next child interpreter


def run_cycle(flags, load, trigger, knobs=None, limit=None):
    argv = argv_for(flags, load) + (["--limit", str(limit)] if limit else [])
    if _FRESH[0] is not None:
        from .. import freshproc
        return freshproc.run_cycle(argv, trigger, knobs, _FRESH[0]())
    ctx = session.SessionCtx(trigger=trigger, knobs=knobs)
    r = session.run_main(argv, ctx)
    E = session.emitted_preterminals(ctx)
    ends = [e["first_line"] for e in E[1:]] + [ctx.nlines]
    for e, end in zip(E, ends):
        e["lines"] = ctx.guesses[e["first_line"]:end]
    r.emitted = E
    r.remainder = []
    for call in ctx.restore_omen_calls:
        r.remainder.extend(ctx.guesses[call[1]:call[2] if call[2] is not None else ctx.nlines])
    return r


def clean_sessions(wr):
    for fn in os.listdir(wr):
        if fn.endswith(".sav") or fn.endswith(".omn"):
            os.unlink(os.path.join(wr, fn))


def is_m(pt):
    return len(pt) == 1 and pt[0][0] == "M"


class ResumeOracle:
    """RefResume: what quit/resume cycles may and must emit, given the uninterrupted run U."""

    def __init__(self, U, res):
        self.need = collections.Counter(key_of(e) for e in U)
        self.language = set(self.need)
        self.probs = {key_of(e): e["prob"] for e in U}
        self.ulines = {key_of(e): collections.Counter(e["lines"]) for e in U if is_m(e["pt"])}
        self.uorder = {key_of(e): e["lines"] for e in U if is_m(e["pt"])}
        self.prob_count = collections.Counter(e["prob"] for e in U)
        # what the uninterrupted run wrote for each other pre-terminal (count and an order-independent digest)
        self.uwritten = {key_of(e): self._written(e["lines"]) for e in U if not is_m(e["pt"])}
        self.saved_p = None
        self.partial = None        # (key, Counter of strings still owed, list in U order)
        self.res = res
        self.cycle_no = 0
        self.done = False

    @staticmethod
    def _written(lines):
        return (len(lines), sum(hash(x) for x in lines) & ((1 << 61) - 1))

    def cycle(self, r, wr):
        """returns (kind, detail) or None"""
        res = self.res
        ctx = r.ctx
        c = self.cycle_no
        self.cycle_no += 1
        if r.exc:
            return ("raised", {"cycle": c, "exception": r.exc[-1200:]})
        # "emits" means standard output: every guess handed to print_guess in this process image must have reached the
        # stdout seam by the time the process ended (what else is on stdout is C09's subject)
        unwritten = collections.Counter(ctx.guesses) - collections.Counter(r.lines)
        if unwritten:
            return ("guess_generated_and_saved_as_done_but_never_written", {
                "cycle": c, "generated": len(ctx.guesses), "stdout_lines": len(r.lines),
                "examples": sorted(unwritten.elements())[:4], "in_restored_remainder": bool(r.remainder)})
        # 1. lines written by restore_omen, before any pop
        got = collections.Counter(r.remainder)
        if self.partial is None:
            if r.remainder:
                return ("stale_omen_replay", {"cycle": c, "lines_replayed": len(r.remainder), "first": r.remainder[:3]})
        else:
            key, owed, order = self.partial
            extra = got - owed
            if extra:
                return ("omen_remainder_repeats_or_foreign", {"cycle": c, "extra": sorted(extra.elements())[:5]})
            # the quit may have been requested earlier (even before this process started working): what
            # matters is that it took effect while the remainder was being generated
            cut_in_remainder = ctx.fired and (ctx.fired_in == "remainder" or (not r.emitted and sum(got.values()) < sum(owed.values())))
            if cut_in_remainder:
                owed = owed - got
                self.partial = (key, owed, [s for s in order if s not in got] if max(got.values(), default=0) <= 1 else order)
                res.faults["quit_inside_restored_remainder"] += 1
            else:
                missing = owed - got
                if missing:
                    return ("omen_remainder_skipped", {"cycle": c, "missing": sorted(missing.elements())[:5],
                                                       "owed": sum(owed.values()), "got": sum(got.values())})
                if r.remainder and r.remainder == [s for s in order][:len(r.remainder)]:
                    res.stats["remainder_in_U_order"] += 1
                elif r.remainder:
                    res.stats["remainder_other_order"] += 1
                self.partial = None
        # 2. expanded pre-terminals
        prev = None
        E = r.emitted
        for i, e in enumerate(E):
            k = key_of(e)
            if e["prob"] is None:
                return ("foreign_preterminal", {"cycle": c, "pt": repr(e["pt"])})
            if prev is not None and e["prob"] > prev:
                return ("resumed_order", {"cycle": c, "index": i, "prob": e["prob"], "previous": prev})
            prev = e["prob"]
            if self.saved_p is not None and e["prob"] > self.saved_p:
                return ("above_saved_probability", {"cycle": c, "index": i, "prob": e["prob"], "saved": self.saved_p,
                                                    "pt": repr(e["pt"])})
            if self.need[k] > 0:
                self.need[k] -= 1
            else:
                if k not in self.language:
                    return ("foreign_preterminal", {"cycle": c, "pt": repr(e["pt"])})
                if self.saved_p is None or e["prob"] != self.saved_p:
                    return ("repeat_below_saved_probability", {"cycle": c, "index": i, "pt": repr(e["pt"]), "prob": e["prob"],
                                                               "saved": self.saved_p})
                res.stats["legit_tie_repeats"] += 1
            if not is_m(e["pt"]) and k in self.uwritten and self._written(e["lines"]) != self.uwritten[k]:
                # a pre-terminal that is popped is written out completely, whenever the quit arrives: the saved position
                # is the NEXT pre-terminal, so nobody comes back for the rest of this one
                return ("preterminal_counted_as_emitted_but_not_written_as_in_the_uninterrupted_run", {
                    "cycle": c, "index": i, "pt": repr(e["pt"]), "lines_written": len(e["lines"]),
                    "lines_in_uninterrupted_run": self.uwritten[k][0], "quit_arrived_in_this_cycle": bool(ctx.fired)})
            if is_m(e["pt"]):
                gl = collections.Counter(e["lines"])
                last = i == len(E) - 1
                if last and ctx.fired and (ctx.fired_in == "omen" or sum(gl.values()) < sum(self.ulines[k].values())):
                    extra = gl - self.ulines[k]
                    if extra:
                        return ("omen_level_wrong_strings", {"cycle": c, "extra": sorted(extra.elements())[:5]})
                    self.partial = (k, self.ulines[k] - gl, [s for s in self.uorder[k] if s not in gl])
                    res.faults["quit_inside_omen_level"] += 1
                    if 0 < len(e["lines"]) < sum(self.ulines[k].values()):
                        res.stats["quit_strictly_inside_level"] += 1
                elif gl != self.ulines[k]:
                    return ("omen_level_differs_after_resume", {
                        "cycle": c, "missing": sorted((self.ulines[k] - gl).elements())[:5],
                        "extra": sorted((gl - self.ulines[k]).elements())[:5]})
        # 3. how the cycle ended
        exhausted = bool(ctx.pops) and ctx.pops[-1] is None
        owed_now = self.partial is not None and sum(self.partial[1].values()) > 0
        if ctx.fired and exhausted and owed_now:
            # the quit landed inside the Markov level of the very last pre-terminal: the queue is empty
            # afterwards, but the position inside the level must still have been saved
            try:
                sav = session.read_sav(os.path.join(wr, SESSION[0] + ".sav"))
                has = "omen_guess_number" in sav.get("guessing_info", {})
            except Exception:
                has = False
            if not has:
                return ("quit_in_final_level_not_saved", {"cycle": c, "owed": sum(self.partial[1].values())})
        if ctx.fired and (not exhausted or owed_now):
            if ctx.fired_in is None:
                res.faults["quit_after_pop"] += 1
            try:
                sav = session.read_sav(os.path.join(wr, SESSION[0] + ".sav"))
                self.saved_p = float(sav["guessing_info"]["max_probability"])
            except Exception as ex:
                return ("save_file_unusable", {"cycle": c, "error": repr(ex)})
            popped = [p for p in ctx.pops if p is not None]
            if popped and popped[-1]["prob"] != self.saved_p:
                return ("saved_probability_not_last_pop", {"cycle": c, "saved": self.saved_p, "popped": popped[-1]["prob"]})
            lost = [k for k, n in self.need.items() if n > 0 and self.probs[k] > self.saved_p]
            if lost:
                return ("lost_above_saved_probability", {"cycle": c, "lost": repr(lost[:3]), "saved": self.saved_p})
            if self.prob_count.get(self.saved_p, 0) >= 2:
                res.stats["tie_at_cut"] += 1
        else:
            self.done = True
            missing = [k for k, n in self.need.items() if n > 0]
            if missing:
                return ("lost", {"cycle": c, "missing": repr(missing[:4]), "count": len(missing)})
            if self.partial is not None and sum(self.partial[1].values()):
                return ("omen_remainder_never_emitted", {"cycle": c, "owed": sum(self.partial[1].values())})
        return None


def neighbour_name(t, name):
    """another session name a user keeps next to `name`: one trailing character more or less"""
    if len(name) >= 2 and t.chance(1, 3):
        return name[:-1]
    return name + t.choice(["s", "a", "v", ".", "s", "2", "_old", ".sav"])


def neighbour_sitting(t, res, flags, trigger):
    """between a quit and the --load that follows it, the user runs ANOTHER session (other name, same directory, same
    ruleset) and quits it too: its save files are its own"""
    mine = SESSION[0]
    SESSION[0] = neighbour_name(t, mine)
    try:
        rn = run_cycle(flags, load=False, trigger=trigger, knobs={"guess_cap": 4000})
    finally:
        SESSION[0] = mine
    res.faults["other_session_quit_between_quit_and_resume"] += 1
    if rn.ctx.fired_in:
        res.stats["other_session_quit_inside_" + rn.ctx.fired_in] += 1


def run_history(res, U, triggers, flags, wr, knob_tape=None, keep_stale_omn=False, neighbour=None):
    """one quit/resume history: triggers for successive cycles, then a final cycle to exhaustion"""
    oracle = ResumeOracle(U, res)
    if keep_stale_omn and os.path.exists(os.path.join(wr, SESSION[0] + ".omn")):
        # the session name was used before: its old .omn (another position, maybe another level) is still on the disk
        stale = open(os.path.join(wr, SESSION[0] + ".omn"), "rb").read()
        clean_sessions(wr)
        open(os.path.join(wr, SESSION[0] + ".omn"), "wb").write(stale)
        res.faults["stale_omn_from_earlier_session"] += 1
    else:
        clean_sessions(wr)
    seg = []
    triggers = list(triggers)
    while triggers and triggers[0][0] == "limit":
        triggers.pop(0)             # (a limit sitting only makes sense after a quit has left a session on the disk)
    for cyc, trig in enumerate(triggers + [None]):
        knobs = None
        if knob_tape is not None:
            knobs = {"optimizer_max_length": knob_tape.draw(7)}
        if trig is not None and trig[0] == "limit":
            # a sitting that ends because --limit was reached: it writes no save file, so the session on disk is still the
            # one the previous quit left, and the next --load has to behave as if this sitting had never happened
            if cyc > 0:
                rl = run_cycle(flags, load=True, trigger=None, knobs=knobs, limit=trig[1])
                res.faults["sitting_ended_by_limit_without_saving"] += 1
                seg.append((len(rl.emitted), len(rl.remainder), "limit"))
                if rl.exc:
                    return ("raised", {"cycle": cyc, "exception": rl.exc[-1200:], "history": repr(list(triggers))}, None), seg
            continue
        r = run_cycle(flags, load=cyc > 0, trigger=trig, knobs=knobs)
        res.sim_seconds += r.ctx.clock.now
        problem = oracle.cycle(r, wr)
        seg.append((len(r.emitted), len(r.remainder), r.ctx.fired_in if r.ctx.fired else "end"))
        if problem:
            kind, det = problem[0], dict(problem[1])
            det["history"] = repr(list(triggers))
            return (kind, det, problem[2] if len(problem) > 2 else None), seg
        if oracle.done:
            break
        if neighbour is not None and r.ctx.fired and neighbour[0].chance(1, 4):
            neighbour_sitting(neighbour[0], res, flags, neighbour[1](neighbour[0]))
    return None, seg


def reference_run(res, prop, flags):
    r0 = run_cycle(flags, load=False, trigger=None)
    if r0.exc:
        res.violate(prop, "raised", {"phase": "uninterrupted", "exception": r0.exc[-1200:]})
        res.digest = digest_of("raised")
        return None
    return r0.emitted


# ---------------------------------------------------------------------------
# C08

def run_c08(tape, tier, res):
    t = tape
    spec = worlds.gen_syn(t, allow_m=True, max_pts=250, pools=["dyadic", "tie", "decimal", "normalised", "mixed"],
                          max_structs=3, max_vars=3)
    flags = {"skip_brute": t.chance(1, 5), "skip_case": t.chance(1, 5)}
    wr = scratch.fresh_disk(scratch.draw_place(t))
    rdir = os.path.join(wr, "Rules", "R")
    worlds.write_ruleset(spec, rdir)
    res.sample = {"flags": flags, "ruleset": worlds.spec_summary(spec)}
    ref = RefRuleset(rdir, skip_brute=flags["skip_brute"], skip_case=flags["skip_case"])
    has_m_line = any(s == "M" for s, _ in ref.raw_base)
    if flags["skip_brute"] and not ref.base:
        res.rejected = "skip_brute_M_only"
        return
    U = reference_run(res, "C08", flags)
    if U is None:
        return
    n = len(U)
    if n < 2:
        res.rejected = "tiny_stream"
        return
    histories = []
    fresh = _FRESH[0] is not None
    if fresh:
        pass        # every cycle is a child interpreter (~0.3 s): sampled histories only
    elif tier == "thorough" or n <= 24:
        # fault enumeration: every single cut point of this world (worlds above 150 pre-terminals: 150 evenly spaced
        # cut points and both ends, so that one world stays within seconds also on a loaded machine)
        ks = list(range(1, n + 1))
        if n > 150:
            ks = sorted({ks[int(i * n / 150.0)] for i in range(150)} | {1, 2, n - 1, n})
        else:
            res.stats["worlds_with_every_cut_enumerated"] += 1
        histories.extend([[("pop", k)] for k in ks])
        res.stats["cut_points_enumerated"] += len(ks)
    if fresh:
        nmulti = 3
    elif tier == "thorough":
        histories.extend([[("pop", k), ("start",)] for k in range(1, n + 1, 3 if n <= 150 else 3 * (n // 150 + 1))])
        nmulti = 8
    else:
        nmulti = 5
    total_lines = sum(len(e["lines"]) for e in U)
    for _ in range(nmulti):
        ncuts = t.between(1, 4)
        cuts = []
        remaining = n
        for _c in range(ncuts):
            style = t.draw(5)
            if has_m_line and total_lines >= 2 and t.chance(1, 4):
                # the quit comes after the g-th guess of the process: inside a Markov level when g falls there
                cuts.append(("guess", t.between(1, max(1, min(total_lines, 40)))))
                continue
            if t.chance(1, 8):
                cuts.append(("limit", t.choice([1, 5, 60, 2000])))
                continue
            if style == 4:
                # the quit request is already pending when the process starts working (also while a
                # saved session is being restored): zero pre-terminals later it must stop and save
                cuts.append(("start",))
                continue
            if style == 0:
                k = 1
            elif style == 1:
                k = t.between(1, max(1, remaining))
            else:
                k = t.between(1, max(1, min(remaining, 12)))
            cuts.append(("pop", k))
            remaining = max(1, remaining - (k - 1))
        histories.append(cuts)
    shapes = []
    for cuts in histories:
        problem, seg = run_history(res, U, cuts, flags, wr, neighbour=(t, lambda tt: ("pop", tt.between(1, 9))))
        res.stats["histories"] += 1
        res.stats["cycles"] += len(seg)
        shapes.append((tuple(cuts), tuple(seg)))
        if problem:
            res.violate("C08", problem[0], problem[1], key=problem[2])
            break
    if t.chance(1, 3) and not res.violations:
        session_refused(res, flags, wr, rdir, spec, empty_uuid=t.chance(1, 3))
    res.stats["preterminals_in_U"] += n
    prob_count = collections.Counter(e["prob"] for e in U)
    ties = sum(1 for c in prob_count.values() if c >= 2)
    res.nontrivial = digest_of([spec["base"], spec["vars"], flags, shapes]) if ties else None
    res.shape = tuple(len(c) for c, _ in shapes[-nmulti:])
    res.digest = digest_of([[(e["pt"], e["prob"]) for e in U], shapes, [v.as_dict() for v in res.violations]])


def session_refused(res, flags, wr, rdir, spec, empty_uuid=False):
    clean_sessions(wr)
    if empty_uuid:
        # a ruleset put together by hand: its config.ini has "uuid =" with nothing after it
        spec = dict(spec, uuid="")
        shutil.rmtree(rdir)
        worlds.write_ruleset(spec, rdir)
        res.faults["ruleset_with_empty_uuid"] += 1
    r = run_cycle(flags, load=False, trigger=("pop", 2))
    if not r.ctx.fired:
        return
    before = open(os.path.join(wr, SESSION[0] + ".sav"), "rb").read()
    spec2 = dict(spec)
    spec2["uuid"] = "11111111-0000-4000-8000-000000000001"
    shutil.rmtree(rdir)
    worlds.write_ruleset(spec2, rdir)
    r2 = run_cycle(flags, load=True, trigger=None)
    res.faults["ruleset_retrained_between_quit_and_resume"] += 1
    after = open(os.path.join(wr, SESSION[0] + ".sav"), "rb").read()
    if r2.ctx.pops or r2.ctx.expansions or any(l for l in r2.lines):
        res.violate("C08", "uuid_mismatch_not_refused", {"lines": len(r2.lines), "pops": len(r2.ctx.pops)})
    elif before != after:
        res.violate("C08", "uuid_mismatch_changed_save_file", {})
    shutil.rmtree(rdir)
    worlds.write_ruleset(spec, rdir)


# ---------------------------------------------------------------------------
# C15

def gen_omen_world(t):
    """ruleset with an M structure whose listed levels are small but non-empty"""
    for _attempt in range(6):
        omen = worlds.gen_omen(t)
        ro = RefOmen.from_spec(omen)
        good = []
        for lvl in range(0, 12):
            try:
                c = ro.count(lvl)
            except RecursionError:
                c = 0
            if 2 <= c <= 400:
                good.append(lvl)
        if good:
            break
    else:
        return None, None
    spec = worlds.gen_syn(t, force_m=True, omen=omen, max_pts=80, pools=["dyadic", "decimal", "normalised", "tie"],
                          max_structs=2, max_vars=2)
    nl = t.between(1, min(3, len(good)))
    levels = sorted(t.sample(good, nl))
    if len(levels) >= 2 and t.chance(1, 2):
        levels = t.shuffle(levels)          # probability order is not level order
    probs = worlds._descending_probs(t, "dyadic", len(levels))
    spec["omen_prob"] = [[str(l), p] for l, p in zip(levels, probs)]
    # make the Markov structure likely early
    for b in spec["base"]:
        if b[0] == "M":
            b[1] = t.choice(["0.5", "0.4", "0.25", "0.9"])
    spec["base"].sort(key=lambda x: -float(x[1]))
    return spec, ro


def run_c15(tape, tier, res):
    t = tape
    spec, ro = gen_omen_world(t)
    if spec is None:
        res.rejected = "no_small_omen_level"
        return
    flags = {"skip_brute": False, "skip_case": t.chance(1, 6)}
    wr = scratch.fresh_disk(scratch.draw_place(t))
    rdir = os.path.join(wr, "Rules", "R")
    worlds.write_ruleset(spec, rdir)
    res.sample = {"flags": flags, "ruleset": worlds.spec_summary(spec)}
    U = reference_run(res, "C15", flags)
    if U is None:
        return
    mlevels = [(i, e) for i, e in enumerate(U) if is_m(e["pt"])]
    usable = [(m + 1, e) for m, (i, e) in enumerate(mlevels) if len(e["lines"]) >= 2]
    if not usable:
        res.rejected = "no_omen_level_with_2_guesses"
        return
    histories = []

    def tail():
        out = []
        for _ in range(t.draw(4)):
            kind = t.draw(4)
            if kind == 0:
                out.append(("pop", t.between(1, 6)))
            elif kind == 1 and t.chance(1, 3):
                out.append(("level_end",))
            elif kind == 1:
                out.append(("remainder", t.between(1, 8)))
            elif kind == 2 and t.chance(1, 2):
                out.append(("limit", t.choice([1, 3, 40, 400, 5000])))

            elif kind == 2:
                out.append(("omen", t.between(1, 2), t.between(1, 10)))
            elif t.chance(1, 2):
                out.append(("start",))
            else:
                out.append(("pop", 1))
        return out

    if _FRESH[0] is not None:
        nsample = 3
    elif tier == "thorough":
        for m, e in usable[:3]:
            n = len(e["lines"])
            js = list(range(1, n + 1))
            if len(js) > 80:
                step = len(js) / 80.0
                js = sorted({js[int(i * step)] for i in range(80)} | {1, 2, n - 1, n})
            else:
                res.stats["levels_with_every_position_enumerated"] += 1
            res.stats["quit_positions_enumerated"] += len(js)
            for j in js:
                histories.append([("omen", m, j)] + (tail() if j % 3 == 0 else [("pop", 1)] if j % 3 == 1 else []))
        nsample = 6
    else:
        # quick tier: every position of one small level (fault enumeration inside the sampled world), then samples
        small = [(m, e) for m, e in usable if len(e["lines"]) <= 24]
        if small:
            m, e = small[t.draw(len(small))]
            for j in range(1, len(e["lines"]) + 1):
                histories.append([("omen", m, j)])
            res.stats["levels_with_every_position_enumerated"] += 1
            res.stats["quit_positions_enumerated"] += len(e["lines"])
        nsample = 4
    for s in range(nsample):
        m, e = usable[t.draw(len(usable))]
        n = len(e["lines"])
        style = t.draw(5)
        j = 1 if style == 0 else n if style == 1 else t.between(1, n)
        histories.append([("omen", m, j)] + tail())
    shapes = []
    for trigs in histories:
        problem, seg = run_history(res, U, trigs, flags, wr, knob_tape=t, keep_stale_omn=t.chance(1, 3),
                                   neighbour=(t, lambda tt: ("omen", 1, tt.between(1, 12))))
        res.stats["histories"] += 1
        res.stats["cycles"] += len(seg)
        shapes.append((tuple(trigs), tuple(seg)))
        if problem:
            res.violate("C15", problem[0], problem[1], key=problem[2])
            if problem[2] is None:
                break
    res.stats["omen_levels_in_U"] += len(mlevels)
    strict = res.stats.get("quit_strictly_inside_level", 0)
    res.nontrivial = digest_of([spec["base"], spec["vars"], spec["omen"], spec["omen_prob"], shapes]) if strict else None
    res.shape = tuple(tuple(x[0] for x in trigs) for trigs, _ in shapes[-nsample:])
    res.digest = digest_of([[(e["pt"], e["prob"], e["lines"]) for e in U], shapes, [v.as_dict() for v in res.violations]])


def _fresh_job(prop, seed):
    """one world whose every cycle (the uninterrupted reference run included) is a child interpreter with its own
    PYTHONHASHSEED; only S.sav / S.omn on the scratch disk connect the cycles"""
    from ..tape import Tape
    count = [0]

    def next_hash_seed():
        count[0] += 1
        return 1 + (seed * 31 + count[0] * 7919) % 100003
    _FRESH[0] = next_hash_seed
    try:
        t = Tape(seed=seed)
        res = run_one(t, "quick", prop)
    finally:
        _FRESH[0] = None
    return {"seed": seed, "tape": list(t.rec), "children": count[0], "rejected": res.rejected,
            "violations": [v.as_dict() for v in res.violations if v.prop == prop],
            "cycles": res.stats.get("cycles", 0), "histories": res.stats.get("histories", 0),
            "strict": res.stats.get("quit_strictly_inside_level", 0)}


def fresh_phase(prop, tier, base_seed):
    from .. import bigworld
    n = 4 if tier == "quick" else 64
    seeds = [base_seed * 9001 + 700 + i for i in range(n)]
    out = {"fresh_interpreter_worlds": 0, "fresh_interpreter_cycles": 0, "fresh_interpreter_children": 0, "violations": []}
    for r in bigworld._fan_out(_fresh_job, [(prop, sd) for sd in seeds], workers=12):
        if r["rejected"]:
            continue
        out["fresh_interpreter_worlds"] += 1
        out["fresh_interpreter_cycles"] += r["cycles"]
        out["fresh_interpreter_children"] += r["children"]
        for v in r["violations"][:1]:
            v = dict(v, kind="fresh_interpreter:" + v["kind"])
            out["violations"].append({"seed": r["seed"], "tape": [], "violation": v, "case": None})
    return out


def _deep_job(seed):
    """a world whose restore has to walk more than a thousand steps down one terminal list (a variable with 1 100 - 2 500
    probability groups, in second position of one structure and in first position of another): the depth at which the
    recursive restore passes the interpreter's default recursion limit"""
    from ..tape import Tape
    t = Tape(seed=seed)
    res = RunResult()
    session.DEFAULT_KNOBS["max_queue_size"] = None
    G = t.between(1100, 2500)
    # counts fall linearly from r*G to about G: r = 2 is a flat tail (all chains deep at once), large r a steep one
    r = t.choice([1.5, 2, 2, 4, 50])
    counts = [r * G - i * (r - 1) for i in range(G)]
    total = sum(counts)
    digits = t.shuffle(["%04d" % i for i in range(3000, 3000 + G)])
    dvar = [[repr(c / total), [d]] for c, d in zip(counts, digits)]
    ovar = t.choice([[["0.7", ["!"]], ["0.2", ["#"]], ["0.1", ["$"]]], [["0.5", ["!"]], ["0.3", ["#"]], ["0.2", ["$", "."]]]])
    base = t.choice([[["O1D4", "0.6"], ["D4O1", "0.4"]], [["O1D4", "0.6"], ["D4O1", "0.3"], ["D4", "0.1"]],
                     [["D4O1", "0.6"], ["O1D4", "0.4"]]])
    spec = {"kind": "syn", "pool": "deep", "encoding": "utf-8", "uuid": "00000000-0000-4000-8000-000000000777",
            "vars": {"D4": dvar, "O1": ovar}, "base": base,
            "omen": worlds.TRIVIAL_OMEN, "omen_prob": None, "omen_keyspace": None}
    wr = scratch.fresh_disk()
    worlds.write_ruleset(spec, os.path.join(wr, "Rules", "R"))
    flags = {"skip_brute": False, "skip_case": False}
    U = reference_run(res, "C08", flags)
    out = {"seed": seed, "groups": G, "violations": [], "cycles": 0, "preterminals": len(U or [])}
    if U is not None:
        n = len(U)
        for _ in range(3):
            # cuts deep enough that the list has been walked more than a thousand groups down
            k1 = t.between(int(0.2 * n), n - 1)
            cuts = [("pop", k1)] + ([("pop", t.between(1, 50))] if t.chance(1, 2) else [])
            problem, seg = run_history(res, U, cuts, flags, wr)
            out["cycles"] += len(seg)
            if problem:
                res.violate("C08", problem[0], problem[1], key=problem[2])
                break
    out["violations"] = [v.as_dict() for v in res.violations if v.prop == "C08"]
    return out


def _huge_job(seed):
    """a world with one pre-terminal of more than a million guesses (a tied group of 1 050 - 1 300 words times the thousand
    three-digit strings), and quits that arrive while it is being written out: thresholds on the size of a pre-terminal
    sit there.  Everything the uninterrupted run writes must be written by the sittings together."""
    import itertools
    from ..tape import Tape
    t = Tape(seed=seed)
    res = RunResult()
    session.DEFAULT_KNOBS["max_queue_size"] = None
    letters = "abcdefghijklmnopqrstuvwxyz"
    words = ["".join(x) for x in itertools.product(letters, repeat=3)]
    words = t.shuffle(words)
    nbig = t.between(1150, 1400)
    pbig = 0.5 / nbig
    avar = [[repr(0.3), [words[nbig]]], [repr(0.1), [words[nbig + 1], words[nbig + 2]]], [repr(pbig), words[:nbig]]]
    digits = t.shuffle(["%03d" % i for i in range(1000)])
    dvar = [[repr(0.0019), digits[900:]], [repr(0.0009), digits[:900]]] if t.chance(1, 2) else [[repr(0.001), digits]]
    base = t.choice([[["A3D3", "0.7"], ["D3", "0.3"]], [["D3A3", "0.6"], ["A3", "0.3"], ["D3", "0.1"]]])
    spec = {"kind": "syn", "pool": "huge", "encoding": "utf-8", "uuid": "00000000-0000-4000-8000-000000000888",
            "vars": {"A3": avar, "D3": dvar, "C3": [["1.0", ["LLL"]]]}, "base": base,
            "omen": worlds.TRIVIAL_OMEN, "omen_prob": None, "omen_keyspace": None}
    wr = scratch.fresh_disk()
    worlds.write_ruleset(spec, os.path.join(wr, "Rules", "R"))
    flags = {"skip_brute": False, "skip_case": False}
    U = reference_run(res, "C08", flags)
    out = {"seed": seed, "violations": [], "cycles": 0, "largest_preterminal": 0, "guesses": 0}
    if U is not None:
        sizes = [len(e["lines"]) for e in U]
        out["largest_preterminal"] = max(sizes)
        out["guesses"] = sum(sizes)
        big = max(range(len(U)), key=lambda i: sizes[i])
        first = U[big]["first_line"]
        for _ in range(2):
            # the quit arrives after the g-th guess of the run, somewhere inside the huge pre-terminal
            g = first + t.choice([1, 1000, t.between(2, sizes[big] - 1), sizes[big] - 1])
            cuts = [("guess", g)] + ([("pop", t.between(1, 4))] if t.chance(1, 2) else [])
            problem, seg = run_history(res, U, cuts, flags, wr)
            out["cycles"] += len(seg)
            if problem:
                res.violate("C08", problem[0], problem[1], key=problem[2])
                break
    out["violations"] = [v.as_dict() for v in res.violations if v.prop == "C08"]
    return out


def deep_phase(tier, base_seed):
    from .. import bigworld
    out = {"deep_list_worlds": 0, "deep_list_cycles": 0, "deep_list_groups_max": 0, "violations": []}
    out["huge_preterminal_worlds"] = 0
    for r in bigworld._fan_out(_huge_job, [(base_seed * 7717 + 41 + i,) for i in range(1 if tier == "quick" else 4)]):
        out["huge_preterminal_worlds"] += 1
        out["huge_preterminal_cycles"] = out.get("huge_preterminal_cycles", 0) + r["cycles"]
        out["huge_preterminal_largest"] = max(out.get("huge_preterminal_largest", 0), r["largest_preterminal"])
        for v in r["violations"][:1]:
            v = dict(v, kind="huge_preterminal:" + v["kind"])
            out["violations"].append({"seed": r["seed"], "tape": [], "violation": v, "case": None})
    jobs = [(base_seed * 8387 + 900 + i,) for i in range(1 if tier == "quick" else 8)]
    for r in bigworld._fan_out(_deep_job, jobs):
        out["deep_list_worlds"] += 1
        out["deep_list_cycles"] += r["cycles"]
        out["deep_list_groups_max"] = max(out["deep_list_groups_max"], r["groups"])
        for v in r["violations"][:1]:
            v = dict(v, kind="deep_list:" + v["kind"])
            out["violations"].append({"seed": r["seed"], "tape": [], "violation": v, "case": None})
    return out


def extra_phase(tier, base_seed, prop="C08"):
    from .. import bigworld
    out = fresh_phase(prop, tier, base_seed)
    if prop == "C08":
        deep = deep_phase(tier, base_seed)
        out["violations"].extend(deep.pop("violations", []))
        out.update(deep)
    big = bigworld.omen_phase(tier, base_seed) if prop == "C15" else bigworld.resume_phase(tier, base_seed)
    out["violations"].extend(big.pop("violations", []))
    out.update(big)
    return out


def run_one(tape, tier, prop):
    res = RunResult()
    res.stats["queue_size_knob_%s" % session.draw_queue_knob(tape)] += 1
    # session names are free text; the save files are <name>.sav and <name>.omn next to the tool
    SESSION[0] = tape.choice(SESSION_NAMES)
    try:
        if prop == "C08":
            run_c08(tape, tier, res)
        else:
            run_c15(tape, tier, res)
    finally:
        SESSION[0] = "S"
    return res
