"""C16: honeywords follow the grammar's distribution.

The random source is the simulator's: ``random.random()`` returns scripted values,
``random.choice`` a scripted index, ``random.seed/randint`` are recorded.  ``random_walk`` +
honeyword expansion is a piecewise-constant function of the draws; the simulator sweeps
every dimension at the reference break-points (midpoints of every cell, one ulp either
side of the boundaries, 0.0 and 1-2^-53) and locates the real switch points by bisection
on the real code, so the *measure* of the draw set that yields a derivation is computed,
not sampled.
"""

import itertools
import math
import os
import subprocess
import sys
from fractions import Fraction

from .. import guesser, scratch, session, worlds
from ..refmodel import RefRuleset
from ..runner import RunResult, digest_of
from . import stdout as c09

CONFIG = {
    "level": "exploration",
    "rule": "one run = relative-frequency ruleset (<= 80 derivations, 1-4 structures incl. Markov, groups of 1-3 values) loaded by the "
            "real loader with drawn --skip_brute / --all_lower; the scripted RNG sweeps (a) the structure draw and (b) every variable's group draw: midpoint of every "
            "reference cell, bisection on the real code for every switch point (measure of each cell vs the reference probability, "
            "1e-9), draws 0.0 and 1-2^-53; (c) every scripted choice index of sampled derivations against the reference expansion; "
            "(d) pcfg_guesser.main() --mode honeywords/random_walk --limit N under scripted extreme draw sequences must write exactly "
            "N words, all in the non-Markov language; (e) random_walk mode twice => identical stdout; extra phase: fresh interpreters "
            "under other hash seeds; non-trivial = ruleset with >= 2 structures and a variable with >= 2 groups; distinct = distinct ruleset",
    "components": {"real": ["PcfgGrammar.random_walk/_honeyword_recursive_guess", "HoneywordSession.run", "pcfg_guesser.main", "loader"],
                   "stub": ["random module in pcfg_grammar/honeyword_session (scripted draws)", "stdout recorder"]},
    "assumptions": ["measure tolerance 1e-9 per cell (cumulative float sums drift by ~1e-13)"],
    "quick_budget_s": 30, "thorough_budget_s": 600, "chunk": 8,
}

TOP = 1.0 - 2.0 ** -53


class ScriptedRandom:
    """stands in for the random module: scripted uniform draws and choice indices"""

    def __init__(self, floats=(), choices=(), default_float=0.5, default_choice=0, randint_value=7):
        self.floats = list(floats)
        self.choices = list(choices)
        self.default_float = default_float
        self.default_choice = default_choice
        self.randint_value = randint_value
        self.seeds = []
        self.n_random = 0
        self.n_choice = 0

    def seed(self, x=None):
        self.seeds.append(x)

    def random(self):
        self.n_random += 1
        return self.floats.pop(0) if self.floats else self.default_float

    def choice(self, seq):
        self.n_choice += 1
        i = self.choices.pop(0) if self.choices else self.default_choice
        return seq[i % len(seq)]

    def randint(self, a, b):
        return self.randint_value


def warm():
    import pcfg_guesser   # noqa
    session.install()
    c09.install_print_seam()


def gen_world(t):
    spec = worlds.gen_syn(t, allow_m=t.chance(1, 2), max_pts=80, max_structs=4, max_vars=3,
                          pools=["normalised"], hostile=t.chance(1, 2))
    worlds.normalise(t, spec)
    if t.chance(1, 6):
        # declared iso-8859-1; bytes 0x80-0x9f there are the control characters U+0080-U+009F (U+0085 left out: a line end)
        spec["encoding"] = "iso-8859-1"
        c1 = [chr(c) for c in (0x80, 0x91, 0x92, 0x93, 0x94, 0x96, 0x9f, 0x81, 0x8d, 0x90)]
        for var, groups in list(spec["vars"].items()):
            used = set()
            for g in groups:
                new = []
                for v in g[1]:
                    if var[0] != "C":
                        v = "".join(ch if ord(ch) < 256 and ch != "\x85" else "x" for ch in v)
                        if var[0] in "OD" and t.chance(1, 3):
                            v = v[:-1] + t.choice(c1)
                    if v not in used:           # (a value occurs once per variable)
                        used.add(v)
                        new.append(v)
                g[1][:] = new
            spec["vars"][var] = [g for g in groups if g[1]]
        worlds.normalise(t, spec)
    return spec


def dflt_pre(ref):
    """a structure draw that selects the first non-Markov structure"""
    cf = Fraction(0)
    for b in ref.base:
        if "M" not in b["replacements"]:
            return float(cf + Fraction(b["prob"]) / 2)
        cf += Fraction(b["prob"])
    return 0.5


def bisect_switch(f, lo, hi, flo, fhi, iters=60):
    """f(lo)=flo != f(hi)=fhi; returns the largest x with f(x)==flo found (float bisection)"""
    for _ in range(iters):
        mid = lo + (hi - lo) / 2.0
        if mid <= lo or mid >= hi:
            break
        v = f(mid)
        if v == flo:
            lo = mid
        elif v == fhi:
            hi = mid
        else:
            return None, mid, v          # a third outcome inside the interval
    return lo, hi, None


def sweep(f, cells, what, res, detail):
    """cells: list of (outcome, exact probability) in cumulative order.  f(u) -> outcome.
    Checks midpoints, extremes and the measure of every cell."""
    # merge adjacent cells with the same outcome
    merged = []
    for o, p in cells:
        if merged and merged[-1][0] == o:
            merged[-1][1] += p
        else:
            merged.append([o, p])
    cum = Fraction(0)
    mids = []
    for o, p in merged:
        mids.append((float(cum + p / 2), o, float(p)))
        cum += p
    for u, o, p in mids:
        if p <= 0:
            continue
        got = f(u)
        if got != o:
            return (what + "_cell_midpoint_wrong", dict(detail, draw=u, expected=repr(o), got=repr(got)))
    for u in (0.0, TOP, 2.0 ** -1074):
        try:
            got = f(u)
        except Exception as e:
            return (what + "_extreme_draw_raised", dict(detail, draw=u, error=repr(e)))
        if got is None or got not in [o for o, _ in merged]:
            return (what + "_extreme_draw_selects_nothing", dict(detail, draw=u, got=repr(got)))
    # measures by bisection between consecutive midpoints
    prev_b = 0.0
    for i in range(len(mids) - 1):
        (u1, o1, p1), (u2, o2, p2) = mids[i], mids[i + 1]
        if p1 <= 0 or p2 <= 0:
            continue
        lo, hi, third = bisect_switch(f, u1, u2, o1, o2)
        if lo is None:
            return (what + "_third_outcome_between_cells", dict(detail, near=hi, outcome=repr(third)))
        measure = lo - prev_b
        if abs(measure - p1) > 1e-9:
            return (what + "_measure_differs_from_probability", dict(detail, outcome=repr(o1), measure=measure, probability=p1))
        prev_b = lo
    if mids:
        last = 1.0 - prev_b
        if abs(last - mids[-1][2]) > 1e-9:
            return (what + "_measure_differs_from_probability", dict(detail, outcome=repr(mids[-1][1]), measure=last,
                                                                     probability=mids[-1][2]))
    return None


def edited_ruleset(t, res, wr, flag_args, skip_case):
    """the ruleset restricted with the shipped edit_rules.py (structures removed, the rest NOT renormalised): still a
    ruleset, so 'exactly N words', 'every word in the non-Markov language' and reproducibility must hold (the distribution
    clause is not judged: the base probabilities no longer sum to 1)"""
    from . import tools
    keep = t.sample(list("ADOKYX"), t.between(2, 5))
    _text, exc = tools.run_tool("edit_rules", ["-r", "R", "--copy", "RE", "--terminal_set", ",".join(keep)])
    if exc:
        return
    rdir = os.path.join(wr, "Rules", "RE")
    try:
        ref = RefRuleset(rdir, skip_brute=True, skip_case=skip_case)
    except Exception:
        return
    if not ref.base:
        return
    lang = set()
    size = 0
    for b in ref.base:
        for idx in itertools.product(*[range(len(ref.vars[r])) for r in b["replacements"]]):
            lang.update(ref.expand(tuple(zip(b["replacements"], idx))))
            size += 1
            if size > 3000:
                return
    res.faults["ruleset_restricted_with_edit_rules"] += 1
    flag_args = [f for f in flag_args if f != "--skip_brute"]
    for mode in ("random_walk", "honeywords"):
        N = t.between(1, 25)
        outs = []
        for rep in range(2 if mode == "random_walk" else 1):
            text, seam, r = c09.run_proc(["-r", "RE", "-s", "S", "--mode", mode, "--limit", str(N)] + flag_args,
                                         mode_rng=None if mode == "random_walk" else c09.SimRandom(t.draw(1 << 20)))
            if r.exc:
                if "IndexError" in r.exc and any("M" in s for s, _ in ref.raw_base):
                    return              # (a walk that ends in a Markov-only remainder: the D13 territory, judged in the main part)
                res.violate("C16", "run_raised_before_N_words", {"mode": mode, "limit": N, "ruleset": "edited", "exception": r.exc[-500:]})
                return
            lines = text.split("\n")[:-1] if text.endswith("\n") else text.split("\n")
            if len(lines) != N:
                res.violate("C16", "limit_not_exact", {"mode": mode, "limit": N, "written": len(lines), "ruleset": "restricted with edit_rules",
                                                       "first_lines": lines[:3]})
                return
            bad = [w for w in lines if w not in lang]
            if bad:
                res.violate("C16", "word_outside_language", {"mode": mode, "word": bad[0], "ruleset": "restricted with edit_rules"})
                return
            outs.append(text)
        if len(outs) == 2 and outs[0] != outs[1]:
            res.violate("C16", "random_walk_not_reproducible", {"ruleset": "restricted with edit_rules"})
            return


def run_one(tape, tier, prop):
    res = RunResult()
    t = tape
    wr = scratch.fresh_disk()
    rdir = os.path.join(wr, "Rules", "R")
    spec = None
    if t.chance(1, 4):
        # a ruleset written by the real trainer: relative frequencies whose float sums drift below 1
        from .. import trainer
        pws, opts = trainer.gen_list(t, {"nonascii": t.chance(1, 3)}, max_lines=25)
        if opts["coverage"] == 0.0:
            opts["coverage"] = 0.5
        with guesser.streams():
            tr = trainer.train(pws, opts)
        if tr.ok:
            spec = {"base": [[s, repr(p)] for s, p in RefRuleset(rdir).raw_base], "vars": {"trained": pws[:12]}}
            res.sample = {"ruleset": "trained", "passwords": pws[:12], "opts": opts}
            res.stats["trained_rulesets"] += 1
    rule = "R"
    if spec is None:
        wr = scratch.fresh_disk()
        spec = gen_world(t)
        # a ruleset may live in a sub-directory of Rules/ and be named by its relative path
        rule = t.choice(["R", "R", "R", "HoneyRules/prod", "team/alpha", "MyRules/R", "old Rules/v2"])
        rdir = os.path.join(wr, "Rules", *rule.split("/"))
        worlds.write_ruleset(spec, rdir)
        if rule != "R":
            # next to it, an unrelated ruleset whose name is the last component of that path
            decoy = {"kind": "syn", "pool": "dyadic", "encoding": "utf-8", "uuid": "00000000-0000-4000-8000-00000000dec0",
                     "vars": {"D3": [["1.0", ["777"]]]}, "base": [["D3", "1.0"]], "omen": worlds.TRIVIAL_OMEN,
                     "omen_prob": None, "omen_keyspace": None}
            worlds.write_ruleset(decoy, os.path.join(wr, "Rules", rule.split("/")[-1]))
            res.stats["ruleset_named_by_a_relative_path"] += 1
        res.sample = {"ruleset": worlds.spec_summary(spec), "rule_name": rule}
    import lib_guesser.pcfg_grammar as pg
    import lib_guesser.honeyword_session as hs
    has_m = any(b[0] == "M" for b in spec["base"])
    only_m = all(b[0] == "M" for b in spec["base"])
    skip_brute = has_m and not only_m and t.chance(1, 2)
    skip_case = t.chance(1, 4)
    res.sample["flags"] = {"skip_brute": skip_brute, "skip_case": skip_case}
    ref = RefRuleset(rdir, skip_brute=skip_brute, skip_case=skip_case)
    if any("M" in b["replacements"] for b in ref.base) and not ref.vars["M"]:
        # a Markov structure whose variable lists no level.  If the saved OMEN model has no string at any level the trainer
        # could list (0..18) the ruleset is degenerate and rejected; otherwise the trainer failed to list a level that exists
        from ..refmodel import RefOmen
        try:
            ro = RefOmen(os.path.join(rdir, "Omen"))
            some = any(ro.count(lv) > 0 for lv in range(0, 19))
        except Exception:
            some = False
        if not some:
            res.rejected = "markov_variable_without_entries"
            return res
        res.violate("C16", "markov_variable_empty_although_levels_have_strings", {"sample": res.sample})
        return res
    with guesser.streams():
        pcfg = guesser.load(rdir, skip_brute=skip_brute, skip_case=skip_case)
    saved = (pg.random, hs.random)
    problem = None
    try:
        # (a) structure dimension
        def f_struct(u):
            rng = ScriptedRandom(floats=[u])
            pg.random = rng
            item = pcfg.random_walk()
            names = tuple(x[0] for x in item["pt"])
            return names if names else None
        cells = [(tuple(b["replacements"]), Fraction(b["prob"])) for b in ref.base]
        problem = sweep(f_struct, cells, "structure", res, {})
        res.stats["structure_sweeps"] += 1
        # (b) group dimension for every structure / position
        if problem is None:
            cum = Fraction(0)
            for b in ref.base:
                u0 = float(cum + Fraction(b["prob"]) / 2)
                cum += Fraction(b["prob"])
                reps = b["replacements"]
                if reps == ["M"]:
                    continue
                for pos, var in enumerate(reps):
                    groups = ref.vars[var]
                    if len(groups) < 1:
                        continue

                    def f_group(u, pos=pos, u0=u0, n=len(reps)):
                        fl = [u0] + [0.5] * n
                        fl[1 + pos] = u
                        pg.random = ScriptedRandom(floats=fl)
                        item = pcfg.random_walk()
                        if len(item["pt"]) != n:
                            return None
                        return item["pt"][pos][1]
                    gcells = [(i, Fraction(g["prob"]) * len(g["values"])) for i, g in enumerate(groups)]
                    problem = sweep(f_group, gcells, "group", res, {"structure": b["text"], "position": pos, "variable": var})
                    res.stats["group_sweeps"] += 1
                    if problem:
                        break
                if problem:
                    break
        # (c) choice dimension on sampled derivations
        language = set()
        nonm = [b for b in ref.base if "M" not in b["replacements"]]
        if problem is None and nonm:
            for _ in range(3):
                b = nonm[t.draw(len(nonm))]
                pt = [(r, t.draw(len(ref.vars[r]))) for r in b["replacements"]]
                pools = [ref.vars[r][i]["values"] for r, i in pt]
                want = ref.expand(tuple(pt))
                combos = list(itertools.product(*[range(len(p)) for p in pools]))[:40]
                for ci, combo in enumerate(combos):
                    seam = []
                    c09._PG[0] = seam
                    pg.random = ScriptedRandom(choices=list(combo))
                    with guesser.streams():
                        n = pcfg.create_guesses(pt, is_honeyword=True)
                    c09._PG[0] = None
                    exp = want[list(itertools.product(*[range(len(p)) for p in pools])).index(combo)]
                    if n != 1 or seam != [exp]:
                        problem = ("choice_yields_wrong_word", {"pt": repr(pt), "choices": combo, "expected": exp, "got": seam, "count": n})
                        break
                res.stats["choice_combinations"] += len(combos)
                if problem:
                    break
    except Exception:
        import traceback
        problem = ("raised", {"exception": traceback.format_exc()[-900:]})
    finally:
        pg.random, hs.random = saved
        c09._PG[0] = None
    if problem:
        res.violate("C16", problem[0], problem[1])
    outputs = []
    # (d) whole process images with scripted extreme draw sequences
    if not res.violations:
        lang = set()
        for b in ref.base:
            if "M" in b["replacements"]:
                continue
            for idx in itertools.product(*[range(len(ref.vars[r])) for r in b["replacements"]]):
                lang.update(ref.expand(tuple(zip(b["replacements"], idx))))
        only_m = all("M" in b["replacements"] for b in ref.base)
        flag_args = (["--skip_brute"] if skip_brute else []) + (["--all_lower"] if skip_case else [])
        if not only_m:
            for mode in ("honeywords", "random_walk"):
                N = t.between(1, 12)
                style = t.draw(5)
                m_cells = []
                cf = Fraction(0)
                for b in ref.base:
                    if "M" in b["replacements"]:
                        m_cells.append(float(cf + Fraction(b["prob"]) / 2))
                    cf += Fraction(b["prob"])
                if style == 4 and not m_cells:
                    style = 3
                if style == 4:
                    # the walk lands on the Markov structure (no word) well over a thousand times before and between
                    # the draws that yield words: the session must keep going until N words are out
                    floats = []
                    for _ in range(N):
                        floats += [m_cells[0], 0.5] * t.choice([300, 1100])
                        floats += [dflt_pre(ref)] + [t.draw(1 << 20) / float(1 << 20) for _ in range(6)]
                elif style == 0:
                    floats = [TOP] * 400
                elif style == 1:
                    floats = [0.0] * 400
                elif style == 2:
                    floats = [t.choice([0.0, TOP, 0.5, 2.0 ** -1074, 1e-17, 0.999999999999]) for _ in range(400)]
                else:
                    floats = [t.draw(1 << 30) / float(1 << 30) for _ in range(400)]
                # a Markov structure yields no word: keep the script from selecting it forever
                # once the script is used up, fall back to a draw that selects a non-Markov structure
                cumf = Fraction(0)
                dflt = 0.37
                for b in ref.base:
                    if "M" not in b["replacements"]:
                        dflt = float(cumf + Fraction(b["prob"]) / 2)
                        break
                    cumf += Fraction(b["prob"])
                rng = ScriptedRandom(floats=floats, choices=[t.draw(5) for _ in range(400)], default_float=dflt)
                text, seam, r = c09.run_proc(["-r", rule, "-s", "S", "--mode", mode, "--limit", str(N)] + flag_args, mode_rng=rng)
                res.faults["scripted_draws_" + ["top", "zero", "mixed_extremes", "uniform", "markov_heavy"][style]] += 1
                if r.exc:
                    res.violate("C16", "run_raised_before_N_words", {"mode": mode, "limit": N, "written": len(seam),
                                                                     "draw_style": ["top", "zero", "mixed", "uniform", "markov_heavy"][style],
                                                                     "exception": r.exc[-500:]})
                    break
                if len(set(rng.seeds)) != len(rng.seeds):
                    res.violate("C16", "generator_reseeded_with_the_same_seed", {"mode": mode, "seeds": rng.seeds[:8]})
                    break
                if mode == "random_walk" and rng.seeds[:1] != [1]:
                    res.violate("C16", "random_walk_not_seeded_reproducibly", {"seeds": rng.seeds[:4]})
                    break
                words = guesser.split_lines(text)
                outputs.append(words)
                if len(words) != N:
                    res.violate("C16", "limit_not_exact", {"mode": mode, "limit": N, "written": len(words)})
                    break
                bad = [w for w in words if w not in lang]
                if bad:
                    res.violate("C16", "word_outside_language", {"mode": mode, "word": bad[0]})
                    break
            # (e) random_walk mode reproducible with the real generator
            if not res.violations:
                outs = []
                for _ in range(2):
                    text, seam, r = c09.run_proc(["-r", rule, "-s", "S", "--mode", "random_walk", "--limit", "15"] + flag_args)
                    outs.append(text if not r.exc else "EXC:" + r.exc[-200:])
                outputs.append(outs[0])
                if outs[0] != outs[1]:
                    res.violate("C16", "random_walk_not_reproducible", {"first": outs[0][:80], "second": outs[1][:80]})
                elif outs[0].startswith("EXC:"):
                    res.violate("C16", "run_raised_before_N_words", {"mode": "random_walk", "exception": outs[0]})
    if not res.violations and len(ref.raw_base) >= 2 and rule == "R" and t.chance(1, 4):
        edited_ruleset(t, res, wr, flag_args if not only_m else [], skip_case)
    if not res.violations and not only_m and t.chance(1, 150 if tier == "quick" else 20):
        # a long session (progress reporting, counters and buffers have thresholds at round numbers of words)
        N = t.choice([100000, 100001, 131072, 250000]) + t.draw(3)
        mode = t.choice(["random_walk", "honeywords"])
        text, seam, r = c09.run_proc(["-r", rule, "-s", "S", "--mode", mode, "--limit", str(N)] + flag_args,
                                     mode_rng=None if mode == "random_walk" else c09.SimRandom(t.draw(1 << 20)))
        res.stats["sessions_of_100000_words_or_more"] += 1
        if r.exc:
            res.violate("C16", "run_raised_before_N_words", {"mode": mode, "limit": N, "exception": r.exc[-500:]})
        else:
            nl = text.count("\n")
            if nl != N:
                res.violate("C16", "limit_not_exact", {"mode": mode, "limit": N, "written": nl})
            else:
                bad = [w for w in set(text.split("\n")[:-1]) if w not in lang]
                if bad:
                    res.violate("C16", "word_outside_language", {"mode": mode, "word": bad[0], "limit": N})
    nstruct = len(ref.base)
    multi = any(len(g) >= 2 for g in ref.vars.values())
    res.nontrivial = digest_of([spec["base"], spec["vars"], skip_brute, skip_case]) if (nstruct >= 2 and multi) else None
    res.shape = (nstruct, sum(1 for b in ref.base if "M" in b["replacements"]), skip_brute, skip_case)
    res.digest = digest_of([spec["base"], spec["vars"], outputs, [v.as_dict() for v in res.violations]])
    return res


def extra_phase(tier, base_seed):
    """random_walk mode in fresh interpreters under different hash seeds: identical stdout"""
    from ..tape import Tape
    import shutil
    code = scratch.code_dir()
    out = {"fresh_interpreter_runs": 0, "violations": []}
    for i in range(2):
        t = Tape(seed=base_seed * 104729 + 300 + i)
        spec = gen_world(t)
        shutil.rmtree(os.path.join(code, "Rules"), ignore_errors=True)
        worlds.write_ruleset(spec, os.path.join(code, "Rules", "R"))
        outs = []
        for hsd in ("0", "4242"):
            p = subprocess.run([sys.executable, "-W", "ignore", os.path.join(code, "pcfg_guesser.py"), "-r", "R", "-m", "random_walk",
                                "-n", "25"], stdin=subprocess.DEVNULL, capture_output=True, timeout=120,
                               env=scratch.child_env(PYTHONHASHSEED=hsd, PYTHONUTF8="1"))
            outs.append(p.stdout)
            out["fresh_interpreter_runs"] += 1
        if outs[0] != outs[1] or outs[0].count(b"\n") != 25:
            out["violations"].append({"seed": base_seed, "tape": list(t.rec), "violation": {
                "property": "C16", "kind": "random_walk_differs_between_interpreters", "key": None,
                "detail": {"lines": [o.count(b"\n") for o in outs]}}, "case": None})
        shutil.rmtree(os.path.join(code, "Rules"), ignore_errors=True)
        for fn in os.listdir(code):
            if fn.endswith(".sav"):
                os.unlink(os.path.join(code, fn))
    return out
