"""C07 and C19: the bytes between the programs.

C07  one writer (the real trainer) and five readers (guesser loader, scorer loader,
     guesser OMEN loader, OmenScorer, keyspace loader) over the same scratch disk, with
     hostile code points and every supported file encoding.
C19  the training file is the fault surface: the same logical list is written in
     equivalent encodings (plain / $HEX[] / count prefix / CRLF), polluted with junk
     lines (blank, tab, C0 controls, undecodable bytes, unterminated last line) and hit
     by random byte flips; the three passes and the resulting rulesets are compared.
"""

import collections
import json
import os

from .. import guesser, scratch, trainer, worlds
from ..refmodel import RefOmen, RefRuleset
from ..runner import RunResult, digest_of
from .training import tree_hash

CONFIGS = {
    "C07": {
        "level": "exploration",
        "rule": "one run = training list with hostile code points (NBSP, U+3000, U+2028, U+2029, U+0085, U+001C-1F, VT, FF, DEL, BOM, "
                "ZWSP, leading/trailing/only spaces, non-BMP) x encoding {utf-8, iso-8859-1, cp1252, cp1251, koi8-r, ascii} -> real "
                "trainer -> five real readers; each reader's (value, probability) / (n-gram, level) pairs must equal RefRuleset / "
                "RefOmen (byte-level LF/TAB reading), and config.ini file lists must equal the directories; non-trivial = some value on "
                "disk contains a non-ASCII or white-space character; distinct = distinct (list, encoding)",
        "components": {"real": ["run_trainer + savers", "lib_guesser.grammar_io.load_grammar/load_omen_keyspace", "lib_scorer.grammar_io.load_grammar",
                                "lib_guesser.omen.input_file_io.load_rules", "lib_scorer.omen_scorer.OmenScorer"],
                       "stub": ["uuid", "stdout sinks"]},
        "assumptions": ["the line-oriented format is LF-terminated lines with TAB-separated fields (RefRuleset reads it that way)"],
        "quick_budget_s": 30, "thorough_budget_s": 600, "chunk": 6,
    },
    "C19": {
        "level": "exploration",
        "rule": "one run = one logical list L (passwords with inner/leading/trailing spaces, non-ASCII, '$HEX[' look-alikes) written as "
                "plain, random-subset $HEX[], count-prefixed (--prefixcount) and CRLF variants, each optionally with injected junk lines "
                "(blank, tab, C0 control, undecodable bytes, unterminated last line); oracle: all three passes of every variant yield "
                "exactly L, rulesets byte-identical except uuid/filename, password count and encoding-error count in config.ini equal what was injected (also junk after the last valid line), nothing forbidden leaks; then k "
                "random byte flips of the plain file: passes still agree with each other, training does not abort, nothing forbidden "
                "leaks; non-trivial = variant with >= 1 hex line and >= 1 junk line; distinct = distinct (L, variants)",
        "components": {"real": ["TrainerFileInput.read_password (3 passes)", "run_trainer", "savers"],
                       "stub": ["uuid", "stdout sinks"]},
        "assumptions": ["a physical line that the codec splits at U+001C..1E / VT / FF / U+0085 / lone CR and whose fragment is accepted "
                        "is counted (fragment_survived), not judged: the property does not define 'line'"],
        "quick_budget_s": 30, "thorough_budget_s": 600, "chunk": 5,
    },
}


def warm():
    import lib_trainer.run_trainer    # noqa
    import lib_guesser.grammar_io     # noqa
    import lib_scorer.grammar_io      # noqa
    import lib_scorer.pcfg_password_scorer  # noqa
    trainer.install()


# ---------------------------------------------------------------------------
# C07

def run_c07(t, tier, res):
    enc = t.choice(trainer.ENCODINGS)
    flavour = {"encoding": enc, "nonascii": True, "hostile": True, "nonbmp": enc == "utf-8" and t.chance(1, 3),
               "sites": t.chance(1, 4), "zoo": enc == "utf-8" and t.chance(1, 3), "large": t.chance(1, 30 if tier == "quick" else 8)}
    pws, opts = trainer.gen_list(t, flavour)
    # splice hostile characters into words as well
    for i in range(len(pws)):
        if t.chance(1, 4):
            h = t.choice(trainer.HOSTILE)
            if trainer.representable(h, enc):
                k = t.draw(len(pws[i]) + 1)
                pws[i] = pws[i][:k] + h + pws[i][k:]
    if t.chance(1, 25):
        # one very long run of a single class: segment lengths of four digits (D1204, A1000, O1001)
        kind = t.draw(3)
        n = t.choice([1000, 1001, 1204, 1999])
        pws.append(("7" * n) if kind == 0 else ("ab" * (n // 2) + "c" * (n % 2)) if kind == 1 else ("!" * n))
        res.stats["four_digit_segment_lengths"] += 1
    if opts["coverage"] == 0.0:
        opts["coverage"] = 0.5
    scratch.fresh_disk()
    # rule names are free text: brackets, stars and question marks are legal in a directory name
    rule = t.choice(["R", "R", "R", "leak[2024]", "r[a-z]x", "st*r", "wh?t", "top 100", "R.v2"])
    if t.chance(1, 3):
        # the rule name was trained before from a different list (stale files in the directory)
        old, oopts = trainer.gen_list(t, {"encoding": enc, "nonascii": True, "sites": True})
        oopts["encoding"] = enc
        if oopts["coverage"] == 0.0:
            oopts["coverage"] = 0.5
        oopts["save_sensitive"] = t.chance(1, 2)
        tr_old = trainer.train(old, oopts, uuid_seed=5, filename="old.txt", rule=rule)
        res.faults["retrain_over_stale_ruleset"] += 1 if tr_old.ok else 0
    raw = None
    if t.chance(1, 2):
        lines = []
        for pw in pws:
            if t.chance(1, 2):
                lines.append(("$HEX[" + pw.encode(enc, "surrogateescape").hex() + "]").encode("ascii"))
            else:
                lines.append(pw.encode(enc, "surrogateescape"))
        raw = b"\n".join(lines) + b"\n"
        res.stats["hex_route_lists"] += 1
    tr = trainer.train(pws, opts, raw=raw, rule=rule)
    if flavour.get("large"):
        res.stats["large_lists_trained" if tr.ok else "large_lists_not_trained"] += 1
    res.sample = {"passwords": pws[:14], "n": len(pws), "opts": opts, "some_lines_as_hex": raw is not None, "rule_name": rule}
    if not tr.ok:
        res.rejected = "trainer_failed"
        return
    rdir = tr.rule_dir
    try:
        ref = RefRuleset(rdir)
    except Exception as e:
        res.violate("C07", "reference_reader_cannot_parse_ruleset", {"error": repr(e)})
        return
    # config lists == directories
    for sec, d in (("BASE_A", "Alpha"), ("BASE_D", "Digits"), ("BASE_O", "Other"), ("BASE_K", "Keyboard"),
                   ("CAPITALIZATION", "Capitalization"), ("BASE_X", "Context"), ("BASE_Y", "Years")):
        listed = sorted(json.loads(ref.cfg.get(sec, "filenames")))
        on_disk = sorted(os.listdir(os.path.join(rdir, d)))
        if listed != on_disk:
            res.violate("C07", "config_file_list_differs_from_directory", {"section": sec, "listed": listed, "on_disk": on_disk})
            return
    interesting = any(any((not c.isascii()) or c.isspace() for c in v) for pairs in ref.flat.values() for v, _ in pairs)
    # what is on disk is what the segmentation produced (nothing stripped, split or merged on the way)
    from ..refseg import Tally
    if not any("İ" in p for p in pws):
        tally = Tally()
        for _pw, sec in tr.cap.parses:
            if sec is not None:
                tally.add(sec)
        for letter, groups in (("A", tally.alpha), ("C", tally.masks), ("D", tally.digits), ("O", tally.other), ("K", tally.keyboard)):
            for n, counter in groups.items():
                var = "%s%d" % (letter, n)
                on_disk = sorted(v for v, _ in ref.flat.get(var, []))
                if on_disk != sorted(counter):
                    res.violate("C07", "value_on_disk_is_not_the_trained_value", {
                        "variable": var, "trained": repr(sorted(counter)[:6]), "on_disk": repr(on_disk[:6]), "encoding": enc})
                    return
    # 1. guesser loader
    from lib_guesser.grammar_io import load_grammar as g_load, load_omen_keyspace
    try:
        grammar, base, info = g_load("R", rdir, "4.7", False, False, "Grammar")
    except Exception:
        import traceback
        res.violate("C07", "guesser_loader_failed", {"exception": traceback.format_exc()[-600:], "encoding": enc})
        return
    for var, pairs in ref.flat.items():
        got = [(v, g["prob"]) for g in grammar.get(var, []) for v in g["values"]]
        if got != pairs:
            res.violate("C07", "guesser_reads_differently", {
                "variable": var, "on_disk": repr(pairs[:6]), "loaded": repr(got[:6]), "encoding": enc,
                "first_difference": repr(next(((a, b) for a, b in zip(pairs, got) if a != b), (len(pairs), len(got))))})
            return
    want_base = [(list(b["replacements"]), b["prob"]) for b in ref.base]
    got_base = [(list(b["replacements"]), b["prob"]) for b in base]
    if got_base != want_base:
        k = next((i for i, (a, b) in enumerate(zip(want_base, got_base)) if a != b), min(len(want_base), len(got_base)))
        res.violate("C07", "guesser_reads_base_structures_differently", {
            "on_disk": repr(want_base[k:k + 1])[:300], "loaded": repr(got_base[k:k + 1])[:300], "structures": len(want_base)})
        return
    # 2. scorer loader
    from lib_scorer.grammar_io import load_grammar as s_load
    from lib_scorer.pcfg_password_scorer import PCFGPasswordScorer
    sc = PCFGPasswordScorer()
    if not s_load(sc, rdir):
        res.violate("C07", "scorer_loader_failed", {"encoding": enc})
        return
    for letter, store in (("A", sc.count_alpha), ("C", sc.count_alpha_masks), ("D", sc.count_digits), ("O", sc.count_other),
                          ("K", sc.count_keyboard)):
        for var, pairs in ref.flat.items():
            if var[0] != letter or var == "M":
                continue
            got = dict(store.get(int(var[1:]), {}))
            if got != dict(pairs):
                res.violate("C07", "scorer_reads_differently", {"variable": var, "on_disk": repr(pairs[:6]),
                                                                "loaded": repr(sorted(got.items())[:6]), "encoding": enc})
                return
    for var, store in (("Y1", sc.count_years), ("X1", sc.count_context_sensitive)):
        if dict(store) != dict(ref.flat.get(var, [])):
            res.violate("C07", "scorer_reads_differently", {"variable": var, "encoding": enc})
            return
    # 3/4/5. OMEN readers
    odir = os.path.join(rdir, "Omen")
    try:
        ro = RefOmen(odir)
    except Exception as e:
        res.violate("C07", "reference_reader_cannot_parse_omen", {"error": repr(e)})
        return
    from lib_guesser.omen.input_file_io import load_rules
    g = {}
    if not load_rules(odir, g):
        res.violate("C07", "guesser_omen_loader_failed", {"encoding": enc})
        return
    gip = {gram: lvl for lvl, grams in g["ip"].items() for gram in grams}
    gcp = {ctx + ch: lvl for ctx, d in g["cp"].items() for lvl, chs in d.items() for ch in chs}
    rcp = {ctx + ch: lvl for ctx, lst in ro.cp.items() for ch, lvl in lst}
    if gip != ro.ip or gcp != rcp:
        res.violate("C07", "guesser_omen_reads_differently", {"ip_equal": gip == ro.ip, "cp_equal": gcp == rcp, "encoding": enc})
        return
    from lib_scorer.omen_scorer import OmenScorer
    try:
        osc = OmenScorer(rdir, enc, 18)
    except Exception:
        import traceback
        res.violate("C07", "scorer_omen_loader_failed", {"exception": traceback.format_exc()[-500:], "encoding": enc,
                                                         "non_ascii_ngrams": any(not k.isascii() for k in ro.ip)})
        return
    if osc.ip != ro.ip or osc.cp != rcp or osc.ln[1:] != [ro.ln[i] for i in sorted(ro.ln)]:
        res.violate("C07", "scorer_omen_reads_differently", {"ip_equal": osc.ip == ro.ip, "cp_equal": osc.cp == rcp, "encoding": enc})
        return
    try:
        # as PcfgGrammar.__init__ calls it (with the ruleset's encoding where the signature takes one)
        import inspect
        if len(inspect.signature(load_omen_keyspace).parameters) >= 2:
            ks = load_omen_keyspace(rdir, enc)
        else:
            ks = load_omen_keyspace(rdir)
    except Exception:
        import traceback
        res.violate("C07", "guesser_keyspace_loader_failed", {"exception": traceback.format_exc()[-500:], "encoding": enc})
        return
    want = {}
    from ..refmodel import _file_bytes
    kdata, _kenc = _file_bytes(os.path.join(odir, "omen_keyspace.txt"), enc)
    for raw in kdata.split(b"\n"):
        if raw.strip():
            a, b = raw.split(b"\t")
            want[int(a)] = int(b)
    if ks != want:
        res.violate("C07", "keyspace_reads_differently", {})
        return
    res.stats["enc_" + enc] += 1
    res.nontrivial = digest_of([pws, opts]) if interesting else None
    res.shape = (enc, interesting)
    res.digest = digest_of([tree_hash(rdir), [v.as_dict() for v in res.violations]])


# ---------------------------------------------------------------------------
# C19

FORBIDDEN = ["\t", "\u2028", "\u0085", "\u2029"] + [chr(c) for c in range(0x20)]


def is_hex_literal(p):
    return p.startswith("$HEX[") and p.endswith("]")


def gen_logical_list(t, enc):
    flavour = {"encoding": enc, "nonascii": t.chance(1, 2), "zoo": enc == "utf-8" and t.chance(1, 4)}
    pws, opts = trainer.gen_list(t, flavour, min_lines=3, max_lines=25)
    extras = [" lead", "trail ", "in ner", "  ", "$HEX[41", "x$HEX[41]", "$hex[41]", "a]b", "$HEX", "12 34", "3 cats"]
    for _ in range(t.draw(4)):
        e = extras[t.draw(len(extras))]
        pws.insert(t.draw(len(pws) + 1), e)
    pws = [p for p in pws if not is_hex_literal(p) and trainer.representable(p, enc) and p.strip("\r\n") == p
           and not any(c in p for c in FORBIDDEN) and " " not in p and "\x7f" not in p and p != ""]
    opts["encoding"] = enc
    if opts["coverage"] == 0.0:
        opts["coverage"] = 0.6
    return pws, opts


JUNK = [b"", b"ab\tcd", b"\x01ctl", b"xx\x1byy", b"\t", b"  \t  ", b"us\x1fsep", b"\x00nul", b"bs\x08", b"del\x10e", b"x\x19y", b"\x1f"]


def junk_line(t, enc, style, errs):
    """a line the reader must skip; errs[0] accumulates how many encoding errors it must count for it"""
    jk = JUNK[t.draw(len(JUNK))]
    counted = 0
    k = t.draw(7)
    if k == 0 and enc in ("utf-8", "ascii"):
        jk = b"bad\xff\xfebytes"          # undecodable bytes: skipped AND counted
        counted = 1
    elif k == 1:
        jk = b"$HEX[zz]"                   # not hex at all: skipped; how it is counted is the tool's convention
        counted = None
    elif k == 2:
        # forbidden content smuggled in through the hex route: tab, LF, C0 control, U+2028, U+0085 inside the payload
        payload = t.choice(["ab\tcd", "ab\ncd", "x\x01y", "\x1b[0m", "a\rb", "summer\x1f2019", "a\x00b", "q\x1ew", "\x0bvt", "ff\x0c"]).encode("ascii")
        if t.chance(1, 3):
            payload = b"pw" + bytes([t.draw(0x20)]) + b"x"          # any C0 control character
        if enc == "utf-8" and t.chance(1, 3):
            payload = t.choice(["a\u2028b", "a\u0085b", "line\u2029end"]).encode("utf-8")
        jk = b"$HEX[" + payload.hex().encode("ascii") + b"]"
    elif k == 3:
        # a $HEX[] payload that is not valid in the training encoding: cut in the middle of a multi-byte character,
        # a stray continuation byte, a byte the code page leaves undefined.  Skipped (how it is counted is the tool's
        # convention) -- and nothing of it may reach the next lines
        bad = {"utf-8": [b"caf\xc3", b"\xe2\x82", b"pw\xf0\x9f\x98", b"\xc3", b"ab\xe2", b"\xff\x41", b"a\xc3\x28", b"\x80",
                         b"\xf0\x9f", b"summer\xd0"],
               "ascii": [b"caf\xc3\xa9", b"\xff"], "cp1252": [b"ab\x81", b"\x8dx", b"x\x90"], "cp1251": [b"\x98x", b"ab\x98"]}.get(enc)
        if bad:
            jk = b"$HEX[" + t.choice(bad).hex().encode("ascii") + b"]"
            counted = None
    if style == "count" and enc == "utf-8" and t.chance(1, 5):
        # a line without a usable count: its first field looks like digits to str.isdigit() but is no integer
        jk = t.choice(["\u00b2 squared", "\u2460 one", "\u2464\u2465 x", "\u2077 seven", "\u00b9\u00b2 x", "\u00bd half"]).encode("utf-8")
        counted = None
    elif style == "count":
        if jk.strip() and t.chance(1, 2):
            jk = str(t.between(1, 3)).encode() + b" " + jk
        counted = None                    # whether a count prefix multiplies an error is the tool's convention: not judged
    if counted is None:
        errs[0] = None
    elif errs[0] is not None:
        errs[0] += counted
    return jk


def render(t, L, enc, style, junk, eol=b"\n", unterminated=False):
    """bytes of a training file whose logical content is L; returns (data, hex lines, junk lines,
    encoding errors the reader must count)"""
    errs = [0]
    lines = []
    i = 0
    n_hex = 0
    n_junk = 0
    while i < len(L):
        p = L[i]
        if style == "count":
            j = i
            while j + 1 < len(L) and L[j + 1] == p:
                j += 1
            n = j - i + 1
            body = p
            if t.chance(1, 3):
                body = "$HEX[" + p.encode(enc).hex() + "]"
                n_hex += 1
            pad = b" " * t.draw(3)
            parts = 1
            if n >= 2 and t.chance(1, 3):
                # two `uniq -c` outputs merged: the same "n password" line several times in a row, byte for byte
                parts = t.choice([d for d in (2, 3, 4) if n % d == 0] or [1])
            for _ in range(parts):
                lines.append(pad + str(n // parts).encode() + b" " + body.encode(enc))
            i = j + 1
        else:
            if style == "hex" and t.chance(1, 2):
                hx = p.encode(enc).hex()
                if t.chance(1, 3):
                    hx = hx.upper()
                lines.append(("$HEX[" + hx + "]").encode("ascii"))
                n_hex += 1
            else:
                lines.append(p.encode(enc))
            i += 1
        if junk and t.chance(1, 4):
            n_junk += 1
            lines.append(junk_line(t, enc, style, errs))
    if junk and t.chance(1, 3):
        # junk after the last valid password (the passes must still read and count it)
        for _ in range(t.between(1, 2)):
            n_junk += 1
            lines.append(junk_line(t, enc, style, errs))
    data = eol.join(lines)
    if not unterminated:
        data += eol
    return data, n_hex, n_junk, errs[0]


def content_fails_anyway(pws, opts):
    """does the trainer also raise on this password sequence written as a clean plain file?
    (e.g. ZeroDivisionError in OMEN smoothing on degenerate lists: not a property of the encoding)"""
    if not pws:
        return True
    o = dict(opts)
    o["prefixcount"] = False
    safe = [p for p in pws if not is_hex_literal(p)]
    tr = trainer.train(safe, o, rule="V_probe", uuid_seed=3, filename="probe.txt")
    return bool(tr.exc)


def have_chardet():
    try:
        import chardet.universaldetector   # noqa  (without it the tool asks a question on stdin)
        return True
    except ImportError:
        return False


def autodetect_consistency(t, L, enc, wr):
    from lib_trainer.trainer_file_input import detect_file_encoding
    out = {}
    for name, (hexed, eol) in {"hex-lf": (True, b"\n"), "hex-crlf": (True, b"\r\n")}.items():
        lines = [(("$HEX[" + p.encode(enc).hex() + "]").encode("ascii") if hexed else p.encode(enc)) for p in L]
        path = os.path.join(wr, "detect_%s.txt" % name)
        with open(path, "wb") as f:
            f.write(eol.join(lines) + eol)
        found = []
        try:
            ok = detect_file_encoding(path, found)
        except Exception as e:
            return ("encoding_autodetect_raised", {"variant": name, "error": repr(e)})
        out[name] = (bool(ok), found[0] if found else None)
    # all-$HEX[] files hand the detector exactly the decoded payloads, so LF and CRLF renderings must agree.
    # (plain vs hex and plain LF vs CRLF feed the heuristic detector different bytes -- line ends included -- and may
    # legitimately be detected differently; that is not judged)
    if out["hex-lf"] != out["hex-crlf"]:
        return ("encoding_autodetect_depends_on_line_ends", {"detected": repr(out), "file_encoding": enc})
    return None


def passes_of(tr):
    """the password sequences the passes over the training file yielded (the --multiword word list is another file)"""
    out = []
    for r, fi in zip(tr.cap.reads, tr.cap.file_inputs):
        if os.path.basename(str(getattr(fi, "filename", ""))) == "multiword.txt":
            continue
        out.append(list(r))
    return out


def leak_check(tr, enc):
    for fi in tr.cap.reads:
        for pw in fi:
            if any(c in pw for c in FORBIDDEN) or any(0xDC80 <= ord(c) <= 0xDCFF for c in pw) or pw == "":
                return ("forbidden_password_yielded", {"password": repr(pw)})
    if tr.ok:
        for dp, dn, fns in os.walk(tr.rule_dir):
            for fn in fns:
                if fn == "config.ini" or "Omen" in dp and fn in ("config.txt",):
                    continue
                data = open(os.path.join(dp, fn), "rb").read()
                try:
                    text = data.decode(enc if "Grammar" not in dp and "Prince" not in dp else "ascii", "surrogateescape")
                except Exception:
                    continue
                for raw in text.split("\n"):
                    fields = raw.split("\t")
                    val = fields[0] if "Omen" not in dp else (fields[1] if len(fields) > 1 else "")
                    if any(c in val for c in FORBIDDEN if c != "\t") or any(0xDC80 <= ord(c) <= 0xDCFF for c in val):
                        return ("forbidden_character_in_ruleset", {"file": os.path.relpath(os.path.join(dp, fn), tr.rule_dir),
                                                                   "value": repr(val)})
    return None


def run_c19(t, tier, res):
    enc = t.choice(["utf-8", "utf-8", "iso-8859-1", "cp1251", "utf-8", "cp1252"])
    L, opts = gen_logical_list(t, enc)
    if len(L) < 2:
        res.rejected = "tiny_list"
        return
    if t.chance(1, 30):
        # one password longer than any read buffer (plain it is one long line; as $HEX[] more than twice as long)
        L.insert(t.draw(len(L) + 1), "".join(t.choice(["7", "3", "x", "Q"]) for _ in range(8)) * t.choice([5000, 8200, 8750]))
        res.stats["lines_longer_than_65536_characters"] += 1
    wr = scratch.fresh_disk()
    if t.chance(1, 3):
        # --multiword FILE given to every variant (also together with --prefixcount): a plain word list whose words make
        # up passwords of L that are not frequent enough to be split on their own
        words = t.sample([w for w in trainer.WORDS if len(w) >= 4] + ["horse", "correct", "staple", "battery"], t.between(2, 5))
        words = [w for w in words if trainer.representable(w, enc)]
        for _ in range(t.between(1, 3)):
            L.insert(t.draw(len(L) + 1), t.choice(words) + t.choice(words))
        mwf = os.path.join(wr, "multiword.txt")
        with open(mwf, "wb") as f:
            f.write("".join(w + "\n" for w in words).encode(enc))
        opts = dict(opts, multiword=mwf)
        res.stats["multiword_file_given_to_every_variant"] += 1
    variants = []
    variants.append(("plain", dict(opts), render(t, L, enc, "plain", False)))
    variants.append(("hex", dict(opts), render(t, L, enc, "hex", t.chance(1, 2))))
    variants.append(("count", dict(opts, prefixcount=True), render(t, L, enc, "count", t.chance(1, 2))))
    variants.append(("crlf", dict(opts), render(t, L, enc, "hex" if t.chance(1, 2) else "plain", t.chance(1, 2), eol=b"\r\n")))
    variants.append(("junk", dict(opts), render(t, L, enc, "plain", True, unterminated=t.chance(1, 2))))
    res.sample = {"logical_list": L[:12], "n": len(L), "opts": opts, "variants": [v[0] for v in variants]}
    hashes = {}
    nontriv = False
    for name, vopts, (data, n_hex, n_junk, want_errs) in variants:
        tr = trainer.train(None, vopts, rule="V_" + name, raw=data, uuid_seed=3, filename="train.txt")
        res.stats["variant_" + name] += 1
        res.faults["junk_lines"] += n_junk
        res.stats["hex_lines"] += n_hex
        if n_hex and n_junk:
            nontriv = True
        if tr.exc:
            if content_fails_anyway(L, vopts):
                res.rejected = "trainer_fails_on_this_list"
                return
            res.violate("C19", "training_aborted", {"variant": name, "exception": tr.exc[-700:]})
            return
        ps = passes_of(tr)
        if len(ps) < 3 and tr.ok:
            res.violate("C19", "fewer_than_three_passes", {"variant": name, "passes": len(ps)})
            return
        for i, p in enumerate(ps):
            if p != L:
                k = next((j for j, (a, b) in enumerate(zip(p, L)) if a != b), min(len(p), len(L)))
                res.violate("C19", "pass_does_not_see_the_list", {
                    "variant": name, "pass": i + 1, "yielded": len(p), "expected": len(L), "first_difference": k,
                    "yielded_there": repr(p[k:k + 2]), "expected_there": repr(L[k:k + 2]), "encoding": enc})
                return
        if not tr.ok:
            # the same list fails for every variant or none
            hashes[name] = None
            continue
        lk = leak_check(tr, enc)
        if lk:
            res.violate("C19", lk[0], dict(lk[1], variant=name))
            return
        import configparser
        cfg = configparser.ConfigParser()
        cfg.read(os.path.join(tr.rule_dir, "config.ini"))
        if cfg.get("TRAINING_DATASET_DETAILS", "number_of_passwords_in_set") != str(len(L)):
            res.violate("C19", "password_count_wrong", {"variant": name, "config": cfg.get("TRAINING_DATASET_DETAILS",
                                                                                          "number_of_passwords_in_set"), "expected": len(L)})
            return
        if want_errs is not None and cfg.get("TRAINING_DATASET_DETAILS", "number_of_encoding_errors") != str(want_errs):
            res.violate("C19", "encoding_error_count_wrong", {"variant": name, "config": cfg.get("TRAINING_DATASET_DETAILS",
                                                                                                "number_of_encoding_errors"),
                                                              "expected": want_errs, "junk_lines": n_junk})
            return
        hashes[name] = tree_hash(tr.rule_dir, skip_prefixes=(b"uuid =", b"filename =", b"number_of_encoding_errors ="))
    base = hashes.get("plain")
    for name, h in hashes.items():
        if (h is None) != (base is None):
            res.violate("C19", "variant_trains_but_other_does_not", {"variant": name})
            return
        if h is not None and h != base:
            diff = sorted(k for k in set(h) | set(base) if h.get(k) != base.get(k))
            res.violate("C19", "variant_ruleset_differs", {"variant": name, "files": diff[:6], "encoding": enc})
            return
    # encoding autodetection (trainer.py without --encoding) must not depend on the line-end convention or on
    # whether passwords are written plain or as $HEX[]: the same bytes reach the detector
    if not res.violations and t.chance(1, 2) and have_chardet():
        prob = autodetect_consistency(t, L, enc, wr=scratch.worker_root())
        res.stats["autodetect_comparisons"] += 1
        if prob:
            res.violate("C19", prob[0], prob[1])
            return
    # byte-flip faults on the plain file
    data = bytearray(variants[0][2][0])
    nflip = t.between(1, 4)
    for _ in range(nflip):
        if not data:
            break
        k = t.draw(len(data))
        data[k] = t.choice([0x00, 0x09, 0x0a, 0x0d, 0xff, 0x80, 0x1c, 0x85, 0x5d, 0x24, 0x20, 0xc3, 0xe2])
    trf = trainer.train(None, dict(opts), rule="V_flip", raw=bytes(data), uuid_seed=3)
    res.faults["byte_flips"] += nflip
    if trf.exc:
        ps = passes_of(trf)
        if ps and content_fails_anyway(ps[0], dict(opts)):
            res.stats["flipped_list_untrainable_anyway"] += 1
        else:
            res.violate("C19", "training_aborted", {"variant": "byte-flip", "exception": trf.exc[-700:]})
            return
    ps = passes_of(trf)
    if len(ps) >= 2 and any(p != ps[0] for p in ps[1:]):
        res.violate("C19", "passes_disagree", {"variant": "byte-flip", "lengths": [len(p) for p in ps]})
        return
    lk = leak_check(trf, enc)
    if lk:
        res.violate("C19", lk[0], dict(lk[1], variant="byte-flip"))
        return
    if trf.ok and ps:
        import configparser
        cfg = configparser.ConfigParser()
        cfg.read(os.path.join(trf.rule_dir, "config.ini"))
        if cfg.get("TRAINING_DATASET_DETAILS", "number_of_passwords_in_set") != str(len(ps[-1])):
            res.violate("C19", "password_count_wrong", {"variant": "byte-flip"})
            return
        if len(ps[0]) > len(L):
            res.stats["fragment_survived"] += 1
    res.nontrivial = digest_of([L, opts, [v[0] for v in variants]]) if nontriv else None
    res.shape = (enc, len(L) // 5)
    res.digest = digest_of([hashes, [v.as_dict() for v in res.violations]])


def run_one(tape, tier, prop):
    res = RunResult()
    with guesser.streams():
        {"C07": run_c07, "C19": run_c19}[prop](tape, tier, res)
    return res


# ---------------------------------------------------------------------------
# C07: a terminal file of several MiB (a ruleset trained on a very large list) whose lines all have the same length, so that
# every power-of-two offset -- where block-wise readers cut -- is the end of a line

def _big_file_job(seed):
    from ..tape import Tape
    from ..refmodel import RefRuleset
    t = Tape(seed=seed)
    out = {"seed": seed, "problem": None, "values": 0, "bytes": 0}
    spec = worlds.gen_syn(t, allow_m=False, max_pts=40, max_structs=2, max_vars=2, pools=["dyadic"])
    n = t.choice([300000, 330000, 524288 // 2 + 5])
    width = 7
    letters = "abcdefghij"
    vals = []
    for i in range(n):
        x = i
        s = ""
        for _ in range(width):
            s += letters[x % 10]
            x //= 10
        vals.append(s)
    # two groups, probabilities written with seven characters: every line is 7 + 1 + 7 + 1 = 16 bytes
    half = n // 2
    spec["vars"]["A7"] = [["3.2e-06", vals[:half]], ["1.1e-06", vals[half:]]]
    spec["vars"]["C7"] = [["1.0", ["LLLLLLL"]]]
    spec["base"].append(["A7", "0.0625"])
    wr = scratch.fresh_disk()
    rdir = os.path.join(wr, "Rules", "R")
    worlds.write_ruleset(spec, rdir)
    out["bytes"] = os.path.getsize(os.path.join(rdir, "Alpha", "7.txt"))
    ref = RefRuleset(rdir)
    want = ref.flat["A7"]
    out["values"] = len(want)
    from lib_guesser.grammar_io import load_grammar as g_load
    from lib_scorer.grammar_io import load_grammar as s_load
    from lib_scorer.pcfg_password_scorer import PCFGPasswordScorer
    with guesser.streams():
        try:
            grammar, base, info = g_load("R", rdir, "4.7", False, False, "Grammar")
        except Exception:
            import traceback
            out["problem"] = ("guesser_loader_failed", {"exception": traceback.format_exc()[-500:]})
            return out
        got = [(v, g["prob"]) for g in grammar.get("A7", []) for v in g["values"]]
        if got != want:
            k = next((i for i, (a, b) in enumerate(zip(want, got)) if a != b), min(len(want), len(got)))
            out["problem"] = ("guesser_reads_differently", {"variable": "A7", "values_on_disk": len(want), "loaded": len(got),
                                                            "first_difference_at": k, "byte_offset": 16 * k})
            return out
        sc = PCFGPasswordScorer()
        try:
            ok = s_load(sc, rdir)
        except Exception:
            import traceback
            out["problem"] = ("scorer_loader_failed", {"exception": traceback.format_exc()[-500:]})
            return out
        if not ok:
            out["problem"] = ("scorer_loader_failed", {})
            return out
        sgot = dict(sc.count_alpha.get(7, {}))
        dwant = dict(want)
        if sgot != dwant:
            missing = [v for v, _ in want if v not in sgot][:3]
            extra = [v for v in sgot if v not in dwant][:3]
            out["problem"] = ("scorer_reads_differently", {"variable": "A7", "values_on_disk": len(want), "loaded": len(sgot),
                                                           "missing": missing, "extra": [repr(e) for e in extra]})
    return out


def extra_phase(tier, base_seed, prop="C07"):
    if prop != "C07":
        return {}
    from .. import bigworld
    out = {"multi_MiB_terminal_files": 0, "multi_MiB_terminal_file_bytes_max": 0, "violations": []}
    jobs = [(base_seed * 5501 + 21 + i,) for i in range(1 if tier == "quick" else 4)]
    for r in bigworld._fan_out(_big_file_job, jobs, workers=4):
        out["multi_MiB_terminal_files"] += 1
        out["multi_MiB_terminal_file_bytes_max"] = max(out["multi_MiB_terminal_file_bytes_max"], r["bytes"])
        if r["problem"]:
            out["violations"].append({"seed": r["seed"], "tape": [], "violation": {
                "property": "C07", "kind": "multi_MiB_file:" + r["problem"][0], "key": None, "detail": r["problem"][1]}, "case": None})
    return out
