"""C10, C11, C18: the OMEN (Markov) parties.

C10  the real MarkovCracker over synthetic and trainer-made models, per level against
     RefOmen; then a *history* of generator operations on one shared Optimizer (the memo
     table is process-global state: levels interleaved, suspended, repeated; cache size
     knob 0..6) must give the same multisets.
C11  trainer (live AlphabetLookup captured at save time), scorer (OmenScorer loaded from
     the disk) and guesser (level at which the real generator emits the string) agree.
C18  omen_keyspace.txt / pcfg_omen_prob.txt against what the generator really emits.
"""

import collections
import os

from .. import guesser, scratch, trainer, worlds
from ..refmodel import RefOmen
from ..runner import RunResult, digest_of

_COMP = {
    "real": ["lib_guesser.omen.input_file_io.load_rules", "MarkovCracker", "GuessStructure", "Optimizer"],
    "stub": ["stdout/stderr sinks"],
}
CONFIGS = {
    "C10": {
        "level": "exploration",
        "rule": "one run = OMEN model (70% synthetic: n-gram 2-5, alphabet 2-4, levels from small pools incl. 10-only tables, sparse/"
                "dense/dead-end; 30% written by the real trainer) loaded by the real loader; fault-free configuration: every level "
                "0..Lmax (8 or 24 quick, 34 thorough) with a fresh Optimizer against RefOmen (multiset, then None); history configuration: 4-10 generator "
                "operations (start level, take j, suspend, start another level on the same Optimizer, resume, repeat a level) with "
                "Optimizer.max_length drawn from 0..6; non-trivial = some level with >= 2 strings was generated after the cache "
                "already held entries from another generator; distinct = distinct (model, op history)",
        "components": _COMP,
        "assumptions": ["levels whose reference enumeration exceeds 20000 strings (3000 beyond level 8), or 20000 cumulative per model, are skipped"],
        "quick_budget_s": 30, "thorough_budget_s": 600, "chunk": 10,
    },
    "C11": {
        "level": "exploration",
        "rule": "one run = training list -> real trainer -> ruleset on the scratch disk; candidates = training passwords, strings "
                "emitted by the real generator, one-character edits, out-of-alphabet characters, lengths n-1, n, 21, 22; three "
                "parties: trainer find_omen_level on the live model captured at save time, scorer OmenScorer.parse loaded from disk, "
                "guesser = level at which MarkovCracker emits the string (levels 0..Lmax enumerated); plus omen_pws_per_level.txt = "
                "tally of trainer levels; non-trivial = candidate with a level >= 0 for at least one party; distinct = distinct "
                "(ruleset, candidate)",
        "components": {"real": ["run_trainer (3 passes)", "AlphabetLookup/smoothing/find_omen_level", "omen_file_output", "OmenScorer",
                                "guesser load_rules + MarkovCracker"], "stub": ["uuid", "stdout sinks"]},
        "assumptions": ["guesser levels are enumerated up to Lmax chosen so that the total stays <= 15000 strings; a string the other "
                        "parties put above Lmax is not compared with the guesser"],
        "quick_budget_s": 30, "thorough_budget_s": 600, "chunk": 6,
    },
    "C18": {
        "level": "exploration",
        "rule": "one run = training list (incl. lists dominated by one length or by length == n-gram) -> real trainer; for every "
                "level listed in omen_keyspace.txt with reference count <= 8000 (15000 cumulative per ruleset, deterministic work bound): keyspace == distinct strings the real generator "
                "emits == RefOmen count, and pcfg_omen_prob[L] == (pws_at_L / N) / keyspace_L; non-trivial = listed level with "
                "keyspace >= 2; distinct = distinct (ruleset, level)",
        "components": {"real": ["run_trainer", "calc_omen_keyspace", "omen_file_output", "guesser load_rules + MarkovCracker"],
                       "stub": ["uuid", "stdout sinks"]},
        "assumptions": [],
        "quick_budget_s": 30, "thorough_budget_s": 600, "chunk": 6,
    },
}


def warm():
    import lib_guesser.omen.markov_cracker   # noqa
    import lib_guesser.omen.input_file_io    # noqa
    import lib_trainer.run_trainer           # noqa
    import lib_scorer.omen_scorer            # noqa
    trainer.install()
    install_work_limit()


def load_omen(odir):
    from lib_guesser.omen.input_file_io import load_rules
    g = {}
    with guesser.streams():
        ok = load_rules(odir, g)
    return g if ok else None


class WorkLimit(Exception):
    """deterministic work bound on the real generator (counted calls, not wall time)"""


_WORK = [None]


def install_work_limit():
    from lib_guesser.omen import guess_structure as gs
    if getattr(gs.GuessStructure, "_pcfgsim_limited", False):
        return
    orig = gs.GuessStructure._fill_out_parse_tree

    def _fill_out_parse_tree(self, ip, length, target_level):
        if _WORK[0] is not None:
            _WORK[0] -= 1
            if _WORK[0] < 0:
                raise WorkLimit()
        return orig(self, ip, length, target_level)

    gs.GuessStructure._fill_out_parse_tree = _fill_out_parse_tree
    gs.GuessStructure._pcfgsim_limited = True


def make_optimizer(t, max_length, res=None):
    """the shared lookup cache with every size-like tuning parameter of its constructor drawn small: max_length is the one the
    current tree has; any further integer default (an entry bound, a block size) is a knob of the same kind, inert or absent
    on the current tree"""
    import inspect
    from lib_guesser.omen.optimizer import Optimizer
    kw = {}
    try:
        params = inspect.signature(Optimizer.__init__).parameters
    except (TypeError, ValueError):
        params = {}
    for name, prm in params.items():
        if name in ("self", "max_length"):
            continue
        if isinstance(prm.default, int) and not isinstance(prm.default, bool) and prm.default > 8:
            kw[name] = t.choice([1, 2, 5, 20, 100])
            if res is not None:
                res.stats["optimizer_knob_" + name] += 1
    return Optimizer(max_length=max_length, **kw)


def drain(mc, cap, work=None):
    out = []
    _WORK[0] = work
    try:
        while len(out) <= cap:
            s = mc.next_guess()
            if s is None:
                return out, True
            out.append(s)
        return out, False
    finally:
        _WORK[0] = None


def trained_world(t, flavour=None, res=None):
    pws, opts = trainer.gen_list(t, flavour)
    scratch.fresh_disk()
    tr = trainer.train(pws, opts)
    return pws, opts, tr


def run_c10(t, tier, res):
    from lib_guesser.omen.markov_cracker import MarkovCracker
    from lib_guesser.omen.optimizer import Optimizer
    wr = scratch.fresh_disk()
    if t.chance(3, 10):
        pws, opts = trainer.gen_list(t, {"nonascii": t.chance(1, 4)})
        tr = trainer.train(pws, opts)
        if not tr.ok:
            res.rejected = "trainer_failed"
            return
        odir = os.path.join(tr.rule_dir, "Omen")
        res.sample = {"model": "trained", "passwords": pws[:12], "opts": opts}
        kind = "trained"
    else:
        om = worlds.gen_omen(t, small=False, safe=False)
        odir = os.path.join(wr, "Rules", "R", "Omen")
        worlds.write_omen(om, odir)
        res.sample = {"model": om}
        kind = "synthetic"
    ref = RefOmen(odir)
    if not ref.ip:
        res.rejected = "model_without_initial_ngrams"
        return
    g = load_omen(odir)
    if g is None:
        res.violate("C10", "load_rules_failed", {})
        return
    lmax = (8 if t.chance(1, 2) else 24) if tier == "quick" else 34
    want = {}
    budget_strings = 20000
    for lvl in range(0, lmax + 1):
        try:
            c = ref.count(lvl)
        except RecursionError:
            c = None
        if c is not None and c <= (20000 if lvl <= 8 else 3000):
            want[lvl] = collections.Counter(ref.strings(lvl))
        budget_strings -= c or 0
        if budget_strings < 0:
            break
    if not want:
        res.rejected = "levels_too_large"
        return
    any_strings = any(sum(w.values()) for w in want.values())
    knob = t.draw(7)
    # fault-free configuration
    for lvl, w in sorted(list(want.items())):
        try:
            mc = MarkovCracker(g, lvl, Optimizer(max_length=knob))
            got, done = drain(mc, sum(w.values()) * 2 + 5, work=150000)
        except WorkLimit:
            res.stats["levels_skipped_work_limit"] += 1
            want.pop(lvl)
            continue
        except Exception as e:
            import traceback
            res.violate("C10", "raised", {"level": lvl, "configuration": "fresh cache", "model_kind": kind,
                                          "exception": traceback.format_exc()[-900:]})
            return
        if not done:
            res.violate("C10", "no_exhaustion", {"level": lvl, "emitted": len(got), "expected": sum(w.values())})
            return
        gc = collections.Counter(got)
        if gc != w:
            res.violate("C10", "level_enumeration_wrong", {
                "level": lvl, "configuration": "fresh cache", "optimizer_max_length": knob,
                "missing": sorted((w - gc).elements())[:5], "extra": sorted((gc - w).elements())[:5],
                "expected": sum(w.values()), "emitted": len(got)})
            return
        res.stats["levels_fresh"] += 1
        res.stats["strings"] += len(got)
    if not want:
        res.rejected = "levels_too_expensive"
        return
    # history configuration: one shared optimizer
    _WORK[0] = 600000
    knob = t.draw(7)                      # the shared cache gets its own size
    opt = make_optimizer(t, knob, res)
    gens = []       # [level, cracker, collected, finished]
    nops = t.between(4, 10)
    levels = sorted(want)
    history = []
    warm_hits = 0
    for _ in range(nops):
        op = t.draw(3)
        try:
            if op == 0 or not gens:
                lvl = levels[t.draw(len(levels))]
                cache_nonempty = any(opt.tmto_lookup[i] for i in range(len(opt.tmto_lookup)))
                gens.append([lvl, MarkovCracker(g, lvl, opt), [], False, cache_nonempty])
                history.append(("new", lvl))
            else:
                i = t.draw(len(gens))
                gen = gens[i]
                n = t.between(1, 12) if op == 1 else 10 ** 9
                history.append(("take", i, min(n, 999)))
                while n > 0 and not gen[3]:
                    s = gen[1].next_guess()
                    if s is None:
                        gen[3] = True
                        break
                    gen[2].append(s)
                    n -= 1
                    if len(gen[2]) > sum(want[gen[0]].values()) * 2 + 5:
                        res.violate("C10", "no_exhaustion", {"level": gen[0], "configuration": "shared cache",
                                                             "history": repr(history)})
                        return
        except WorkLimit:
            raise
        except Exception:
            import traceback
            res.violate("C10", "raised", {"configuration": "shared cache", "history": repr(history),
                                          "exception": traceback.format_exc()[-900:]})
            return
    for i, gen in enumerate(gens):
        try:
            while not gen[3]:
                s = gen[1].next_guess()
                if s is None:
                    gen[3] = True
                    break
                gen[2].append(s)
                if len(gen[2]) > sum(want[gen[0]].values()) * 2 + 5:
                    res.violate("C10", "no_exhaustion", {"level": gen[0], "configuration": "shared cache",
                                                         "history": repr(history)})
                    return
        except WorkLimit:
            raise
        except Exception:
            import traceback
            res.violate("C10", "raised", {"configuration": "shared cache drain", "history": repr(history),
                                          "exception": traceback.format_exc()[-900:]})
            return
        gc = collections.Counter(gen[2])
        if gc != want[gen[0]]:
            w = want[gen[0]]
            res.violate("C10", "level_enumeration_depends_on_cache_history", {
                "level": gen[0], "generator": i, "history": repr(history), "optimizer_max_length": knob,
                "missing": sorted((w - gc).elements())[:5], "extra": sorted((gc - w).elements())[:5]})
            return
        if gen[4] and sum(gc.values()) >= 2:
            warm_hits += 1
    _WORK[0] = None
    res.faults["generator_started_on_warm_cache"] += sum(1 for gen in gens if gen[4])
    res.stats["cache_knob_%d" % knob] += 1
    res.stats["history_ops"] += len(history)
    res.stats["model_" + kind] += 1
    res.nontrivial = digest_of([res.sample, history]) if (warm_hits and any_strings) else None
    res.shape = (kind, ref.ngram, knob, tuple(h[0] for h in history))
    res.digest = digest_of([sorted((l, sorted(w.items())) for l, w in want.items()), history,
                            [sorted(collections.Counter(gen[2]).items()) for gen in gens]])


def read_pairs(path, enc):
    out = []
    with open(path, "rb") as f:
        for raw in f.read().split(b"\n"):
            if raw.strip():
                a, b = raw.rstrip(b"\r").split(b"\t")
                out.append((a.decode(enc), b.decode(enc)))
    return out


def run_c18(t, tier, res):
    from lib_guesser.omen.markov_cracker import MarkovCracker
    from lib_guesser.omen.optimizer import Optimizer
    enc = t.choice(["utf-8", "utf-8", "utf-8", "iso-8859-1", "cp1251", "cp1252"])
    flavour = {"nonascii": t.chance(1, 5) or (enc != "utf-8" and t.chance(2, 3)), "long": t.chance(1, 4),
               "large": t.chance(1, 30 if tier == "quick" else 8), "encoding": enc}
    pws, opts = trainer.gen_list(t, flavour)
    style = t.draw(4)
    if style == 0:
        # dominated by one length
        L = t.between(opts["ngram"], opts["ngram"] + 3)
        pws = [p for p in pws if len(p) == L] or ["a" * L]
        pws = pws * 3
    elif style == 1:
        n = opts["ngram"]
        pws = pws + [("abcdefgh"[:n])] * t.between(3, 9) + [("qrstuvwx"[:n])] * t.between(1, 4)
    if opts["coverage"] == 1.0:
        opts["coverage"] = 0.6
    scratch.fresh_disk()
    if t.chance(1, 40 if tier == "quick" else 10):
        # a `uniq -c` list dominated by one password seen 45 000 - 120 000 times, with neighbours that differ in the last
        # letter seen once: the only way a transition gets the top level 10 (a prefix followed > 44 000 times, a letter once)
        n = opts["ngram"]
        base = ("1234abcd"[:t.between(n, n + 2)])
        lines = ["%d %s" % (t.between(45000, 120000), base)]
        for c in t.sample(list("79xz!"), t.between(1, 3)):
            lines.append("%d %s" % (t.between(1, 3), base[:-1] + c))
        for p in list(dict.fromkeys(pws))[:t.between(0, 6)]:
            if p and " " not in p and p == p.strip():
                lines.append("%d %s" % (t.between(1, 4), p))
        opts = dict(opts, prefixcount=True, encoding="utf-8")
        tr = trainer.train(None, opts, raw=("\n".join(lines) + "\n").encode("utf-8"))
        pws = [base]
        res.stats["dominant_password_lists"] += 1
    else:
        if t.chance(1, 4):
            # the rule name is not new: an earlier, larger training left its files in the directory
            if t.chance(1, 2):
                older, oopts = trainer.gen_list(t, {"nonascii": t.chance(1, 3), "encoding": enc}, min_lines=20, max_lines=40)
                oopts = dict(oopts, ngram=opts["ngram"], encoding=enc)
                older = older + ["zq%dxv%d" % (i, i * 7) for i in range(t.between(5, 40))]
            else:
                # the same passwords with other frequencies: every rules file keeps its size
                distinct = list(dict.fromkeys(pws))
                older = [p for p in distinct for _ in range(t.choice([1, 1, 2, 3, 7]))]
                oopts = dict(opts)
            tro = trainer.train(older, oopts)
            if tro.ok:
                load_omen(os.path.join(tro.rule_dir, "Omen"))         # the guesser looked at the ruleset in between
            res.faults["rule_name_trained_before_with_larger_model"] += 1 if tro.ok else 0
        fault = None
        if t.chance(1, 8):
            # a disk that fails one write (or one close) of one rules file and is healthy afterwards (the OMEN files are
            # the first ones the trainer writes): the training reports failure, or what it saved is complete
            fault = (t.between(1, 9), t.choice([0, 1, 1, 2, 3, 5, 9, 30]), t.choice([1, 1, 1, 2, 5]))
        tr = trainer.train(pws, opts, write_fault=fault)
        if tr.disk is not None and tr.disk.fired:
            res.faults["transient_write_error_in_rules_file"] += 1
            res.stats["write_error_then_training_reported_%s" % ("success" if tr.ok else "failure")] += 1
            res.sim_seconds += tr.slept
    if flavour.get("large"):
        res.stats["large_lists_trained" if tr.ok else "large_lists_not_trained"] += 1
    res.sample = {"passwords": pws[:15], "n": len(pws), "opts": opts}
    if not tr.ok:
        res.rejected = "trainer_failed"
        return
    odir = os.path.join(tr.rule_dir, "Omen")
    enc = opts["encoding"]
    ref = RefOmen(odir)
    g = load_omen(odir)
    if g is None:
        res.violate("C18", "load_rules_failed", {})
        return
    keyspace = {int(a): int(b) for a, b in read_pairs(os.path.join(odir, "omen_keyspace.txt"), enc)}
    # "the fraction of training passwords at that level": levels recomputed from the saved model for the passwords the
    # trainer's last pass read, not taken from the trainer's own count file
    reads = tr.cap.reads[-1] if tr.cap.reads else pws
    per_level = collections.Counter(ref.level(p) for p in reads)
    probs = {int(a): float(b) for a, b in read_pairs(os.path.join(odir, "pcfg_omen_prob.txt"), enc)}
    N = len(reads)
    nlisted = 0
    big = 0
    budget_left = 15000
    for lvl in sorted(keyspace):
        try:
            c = ref.count(lvl)
        except RecursionError:
            continue
        if c > 8000 or budget_left < c:
            continue
        budget_left -= c
        try:
            mc = MarkovCracker(g, lvl, Optimizer(max_length=4))
            got, done = drain(mc, c * 2 + 5, work=400000)
        except WorkLimit:
            res.stats["levels_skipped_work_limit"] += 1
            continue
        except Exception:
            import traceback
            res.rejected = "generator_raised(C10)"
            return
        distinct = len(set(got))
        nlisted += 1
        if keyspace[lvl] >= 2:
            big += 1
        if distinct != keyspace[lvl] or c != keyspace[lvl]:
            res.violate("C18", "keyspace_differs_from_generator", {
                "level": lvl, "saved_keyspace": keyspace[lvl], "generator_distinct": distinct, "reference": c,
                "ngram": opts["ngram"], "lengths": sorted({len(p) for p in pws})[:10]})
            return
        if keyspace[lvl] > 0:
            want = (per_level.get(lvl, 0) / N) / keyspace[lvl] if N else None
            got_p = probs.get(lvl)
            if got_p is None or want is None or abs(got_p - want) > 4e-16 * max(abs(want), 1e-300) * 4:
                res.violate("C18", "level_probability_wrong", {"level": lvl, "saved": got_p, "expected": want,
                                                               "pws_at_level": per_level.get(lvl, 0), "N": N})
                return
    res.stats["levels_checked"] += nlisted
    res.nontrivial = digest_of([pws, opts]) if big else None
    res.shape = (opts["ngram"], style, nlisted)
    res.digest = digest_of([sorted(keyspace.items()), sorted(probs.items()), [v.as_dict() for v in res.violations]])


def run_c11(t, tier, res):
    from lib_guesser.omen.markov_cracker import MarkovCracker
    from lib_guesser.omen.optimizer import Optimizer
    from lib_scorer.omen_scorer import OmenScorer
    from lib_trainer.omen.evaluate_password import find_omen_level
    flavour = {"nonascii": t.chance(1, 4), "nonbmp": t.chance(1, 8), "long": t.chance(1, 4), "large": t.chance(1, 30 if tier == "quick" else 8),
               "hostile": t.chance(1, 5)}       # DEL, odd spaces, zero-width characters: accepted by the trainer, so part of the model
    pws, opts = trainer.gen_list(t, flavour)
    scratch.fresh_disk()
    if t.chance(1, 40 if tier == "quick" else 10):
        # a `uniq -c` list dominated by one password (see C18): the only way a transition reaches the top level 10
        n = opts["ngram"]
        base = ("1234abcd"[:t.between(n, n + 2)])
        lines = ["%d %s" % (t.between(45000, 120000), base)]
        extra = [base[:-1] + c for c in t.sample(list("79xz!"), t.between(1, 3))]
        for e in extra:
            lines.append("%d %s" % (t.between(1, 3), e))
        opts = dict(opts, prefixcount=True, encoding="utf-8")
        tr = trainer.train(None, opts, raw=("\n".join(lines) + "\n").encode("utf-8"))
        pws = [base] + extra + [e + "7" for e in extra] + [base + base[-1]]
        res.stats["dominant_password_lists"] += 1
    else:
        tr = trainer.train(pws, opts)
    if flavour.get("large"):
        res.stats["large_lists_trained" if tr.ok else "large_lists_not_trained"] += 1
    res.sample = {"passwords": pws[:15], "n": len(pws), "opts": opts}
    if not tr.ok or tr.cap.omen_trainer is None:
        res.rejected = "trainer_failed"
        return
    odir = os.path.join(tr.rule_dir, "Omen")
    enc = opts["encoding"]
    ot = tr.cap.omen_trainer
    try:
        with guesser.streams():
            # --max_omen is a classification cut-off of password_scorer.py (default 9); the level a string is given
            # does not depend on it, so it is drawn per run like any other tuning knob
            max_omen = t.choice([9, 9, 18, 0, 1, 3, 40])
            scorer = OmenScorer(tr.rule_dir, enc, max_omen)
    except Exception:
        import traceback
        res.violate("C11", "scorer_cannot_load_omen", {"exception": traceback.format_exc()[-800:], "encoding": enc})
        return
    g = load_omen(odir)
    if g is None:
        res.violate("C11", "guesser_cannot_load_omen", {})
        return
    ref = RefOmen(odir)
    # guesser levels by enumeration
    emitted = {}
    total = 0
    lmax = -1
    shared = Optimizer(max_length=4)          # PcfgGrammar keeps one Optimizer for the whole process
    for lvl in range(0, 19):
        try:
            c = ref.count(lvl)
        except RecursionError:
            break
        if total + c > 15000:
            break
        try:
            mc = MarkovCracker(g, lvl, shared)
            if c >= 2 and t.chance(1, 3):
                # the level is generated in two sittings, as after a quit and --load: the position goes through the
                # .omn file and a new MarkovCracker continues from it
                j = 1 + t.draw(c - 1)
                got, done = drain(mc, j - 1, work=400000)
                omn = os.path.join(scratch.worker_root(), "c11_level.omn")
                mc.save_session(omn)
                mc = MarkovCracker(g, 1, shared)
                mc.load_session(omn, {"pt": [["M", 1, 1]]})
                rest, done = drain(mc, c * 2 + 5, work=400000)
                got = got + rest
                res.faults["level_generated_in_two_sittings"] += 1
            else:
                got, done = drain(mc, c * 2 + 5, work=400000)
        except WorkLimit:
            res.stats["levels_stopped_work_limit"] += 1
            break
        except Exception:
            res.rejected = "generator_raised(C10)"
            return
        for s in got:
            emitted.setdefault(s, set()).add(lvl)
            if ref.level(s) != lvl:
                res.violate("C11", "guesser_level_differs", {"string": s, "guesser_emitted_at": lvl, "level_from_saved_files": ref.level(s),
                                                             "ngram": opts["ngram"]})
                return
        total += c
        lmax = lvl
    # candidates
    alpha = list(ot.alphabet)
    cands = list(dict.fromkeys(pws))
    gen_strings = sorted(emitted)
    for _ in range(min(30, len(gen_strings))):
        cands.append(gen_strings[t.draw(len(gen_strings))])
    n = opts["ngram"]
    base = list(cands)
    for _ in range(25):
        s = base[t.draw(len(base))] if base else "abc"
        k = t.draw(5)
        if k == 0 and s:
            i = t.draw(len(s))
            s = s[:i] + (alpha[t.draw(len(alpha))] if alpha else "a") + s[i + 1:]
        elif k == 1 and s:
            i = t.draw(len(s))
            s = s[:i] + t.choice(["~", "Ω", "\U0001F600", "{"]) + s[i + 1:]
        elif k == 2:
            s = (s + "abcdefghijklmnopqrstuvwxyz")[: t.choice([n - 1, n, 21, 22, n + 1])]
        elif k == 3 and len(s) > 1:
            s = s[:-1]
        else:
            s = s + (alpha[t.draw(len(alpha))] if alpha else "a")
        if s:
            cands.append(s)
    cands = list(dict.fromkeys(cands))
    nontriv = 0
    for s in cands:
        lt = find_omen_level(ot, s)
        ls = scorer.parse(s)
        lg = emitted.get(s)
        lr = ref.level(s)
        if lr != lt:
            res.violate("C11", "trainer_level_differs_from_saved_model", {"string": s, "trainer": lt, "from_saved_files": lr, "ngram": n})
            return
        if lt >= 0 or ls >= 0 or lg:
            nontriv += 1
        if lt != ls:
            res.violate("C11", "trainer_and_scorer_disagree", {"string": s, "trainer": lt, "scorer": ls, "ngram": n})
            return
        if lg is not None:
            if len(lg) != 1 or lt not in lg:
                res.violate("C11", "guesser_level_differs", {"string": s, "trainer": lt, "scorer": ls, "guesser": sorted(lg)})
                return
        elif 0 <= lt <= lmax:
            res.violate("C11", "guesser_never_emits_string", {"string": s, "trainer": lt, "scorer": ls, "enumerated_up_to": lmax})
            return
    # the guesser reaches OMEN levels through the PCFG's Markov variable: levels of exactly equal (non-zero)
    # probability are merged into one group of which only the first level is generated (known finding D21)
    probs = read_pairs(os.path.join(odir, "pcfg_omen_prob.txt"), enc)
    byp = collections.defaultdict(list)
    for lv, pr in probs:
        byp[float(pr)].append(lv)
    tied = [lvs for pr, lvs in byp.items() if pr > 0 and len(lvs) > 1]
    if tied and all(0 <= int(l) <= lmax for l in tied[0]):
        # run the guesser's own Markov expansion for that group and see which of the tied levels it generates
        try:
            out = guesser.LineRecorder()
            with guesser.streams(out, guesser.Sink()):
                pcfg = guesser.load(tr.rule_dir)
                gi = next(i for i, grp in enumerate(pcfg.grammar["M"]) if set(grp["values"]) >= set(tied[0]))
                _WORK[0] = 600000
                pcfg.create_guesses([("M", gi)])
            produced = set(guesser.split_lines(out.text()))
            want_all = {s for s, lv in emitted.items() if lv & {int(l) for l in tied[0]}}
            first_only = {s for s, lv in emitted.items() if int(pcfg.grammar["M"][gi]["values"][0]) in lv}
            if produced != want_all and produced == first_only:
                res.violate("C11", "levels_with_equal_probability_not_all_generated", {"levels": tied[0], "generated": len(produced),
                                                                                    "counted_by_trainer": len(want_all)},
                            key="markov-group-of-equal-probability-levels:only-first-level-generated")
            elif produced != want_all:
                res.violate("C11", "markov_group_generates_wrong_strings", {"levels": tied[0]})
        except (WorkLimit, StopIteration):
            pass
        finally:
            _WORK[0] = None
    # per-level counts file (levels recomputed from the saved model, independently of pass 3)
    tally = collections.Counter(ref.level(p) for p in (tr.cap.reads[-1] if tr.cap.reads else pws))
    per_level = {int(a): int(b) for a, b in read_pairs(os.path.join(odir, "omen_pws_per_level.txt"), enc)}
    if dict(tally) != per_level:
        res.violate("C11", "pws_per_level_file_differs", {"file": repr(sorted(per_level.items()))[:200],
                                                          "tally": repr(sorted(tally.items()))[:200]})
    res.stats["candidates"] += len(cands)
    res.stats["guesser_levels_enumerated"] += lmax + 1
    res.nontrivial = digest_of([pws, opts, cands]) if nontriv else None
    res.shape = (n, opts["alphabet_size"], lmax)
    res.digest = digest_of([cands, [find_omen_level(ot, s) for s in cands], sorted(per_level.items())])


def run_one(tape, tier, prop):
    res = RunResult()
    with guesser.streams():
        try:
            {"C10": run_c10, "C11": run_c11, "C18": run_c18}[prop](tape, tier, res)
        except WorkLimit:
            res.rejected = "work_limit_in_history_phase"
            res.violations = []
        finally:
            _WORK[0] = None
    return res


def extra_phase(tier, base_seed, prop="C10"):
    if prop not in ("C10", "C11"):
        return {}
    from .. import bigworld
    return bigworld.omen_model_phase(prop, tier, base_seed)
