"""C01 / C02 / C04: one simulated guesser run over a synthetic ruleset on the
scratch disk, three monitors.

Real: grammar_io loader, OMEN loader, PcfgGrammar, PcfgQueue, create_guesses,
MarkovCracker.  Stub: stdout/stderr recorders.  No fault is injected here (this is
the fault-free configuration of the session simulation; the quit/resume and
scheduler configurations are C08/C12/C15).
"""

import collections
import os
import traceback

from .. import guesser, scratch, worlds
from ..refmodel import RefOmen, RefRuleset, ulps_close
from ..runner import RunResult, digest_of

CONFIGS = {
    "C01": {
        "level": "exploration",
        "rule": "one run = one synthetic ruleset (1-4 base structures incl. duplicates and repeated variable types, "
                "1-4 probability groups per variable, probability pool dyadic/decimal/tie/normalised/mixed/tiny) x flags "
                "(skip_brute, all_lower, Prince folder), real loader + real PcfgQueue.next() to exhaustion, every pop monitored; "
                "non-trivial = the reference language has >= 1 exact probability tie between distinct pre-terminals, a repeated "
                "variable type inside a structure, or a zero/denormal product; distinct = distinct (ruleset bytes, flags)",
    },
    "C02": {
        "level": "exploration",
        "rule": "same worlds as C01; at exhaustion the multiset of emitted (base_prob, pre-terminal) is compared with the reference "
                "language; after every pop (languages <= 600, no duplicate base lines) queue-state invariants: no queued entry above "
                "the last pop, closure (every un-emitted derivation is a successor of a queued entry); duplicates / already-emitted "
                "entries in the queue are probes only; non-trivial = some "
                "node has >= 2 parents of exactly equal probability or a structure repeats a variable type",
    },
    "C04": {
        "level": "exploration",
        "rule": "same worlds as C01 with hostile values (spaces, non-ASCII, non-BMP); for every popped pre-terminal the lines "
                "written to the stdout seam are compared (multiset) with the reference cartesian expansion / RefOmen level, and the "
                "returned count with the number of lines; non-trivial = pre-terminal with >= 2 guesses involving a mask, two alpha "
                "words, or an M level; distinct = distinct (ruleset, pre-terminal)",
    },
}
for _c in CONFIGS.values():
    _c["components"] = {
        "real": ["lib_guesser.grammar_io", "lib_guesser.omen.input_file_io", "PcfgGrammar", "PcfgQueue", "create_guesses",
                 "MarkovCracker/GuessStructure/Optimizer"],
        "stub": ["sys.stdout/sys.stderr recorders"],
        "not_in_this_check": ["keyboard thread scheduler (C12)", "quit/resume faults (C08/C15)"],
    }
    _c["assumptions"] = ["RefRuleset reads the ruleset bytes independently (LF/TAB split, float())",
                         "float comparison: tool floats exactly among themselves; against exact products within 4n ulps"]
    _c["quick_budget_s"] = 30
    _c["thorough_budget_s"] = 600
    _c["chunk"] = 20
CONFIG = CONFIGS["C01"]


def warm():
    import lib_guesser.pcfg_grammar      # noqa
    import lib_guesser.priority_queue    # noqa


def gen_world(t, prop):
    hostile = prop == "C04" or t.chance(1, 5)
    omen = worlds.gen_omen(t) if t.chance(1, 2) else None
    menu = worlds.VAR_MENU + ["A10", "D10", "A12", "O10"] if t.chance(1, 4) else None     # two-digit lengths
    big = t.chance(1, 10)
    spec = worlds.gen_syn(t, hostile=hostile, omen=omen, max_pts=600 if prop == "C02" else 1500, menu=menu, big=big,
                          max_structs=3 if big else 4, max_vars=2 if big else 4)
    if prop == "C04" and t.chance(1, 25):
        # one digit group with exactly N values (block sizes of a writer sit at round numbers)
        dvars = [v for v in spec["vars"] if v[0] == "D" and v[1:].isdigit() and int(v[1:]) >= 4] or None
        if dvars is None:
            spec["vars"]["D5"] = [["0.5", ["00000"]]]
            spec["base"].append(["D5", spec["base"][-1][1]])
            dvars = ["D5"]
        v = dvars[t.draw(len(dvars))]
        N = t.choice([256, 1000, 1024, 4096, 4096, 8192])
        w = int(v[1:])
        spec["vars"][v][-1][1] = [("%0" + str(w) + "d") % (7 * i + 3) for i in range(N)]
        spec["exact_group"] = N
    # PRINCE base structures: single-variable structures
    spec["spell"] = t.draw(4) if t.chance(1, 4) else 0        # same probability written as 0.5 / 0.50 / 5.0e-01
    names = [v for v in spec["vars"] if v[0] != "C"]
    pr = worlds._descending_probs(t, "normalised", min(4, len(names)))
    spec["prince"] = [[n, p] for n, p in zip(names, pr)]
    flags = {"skip_brute": t.chance(1, 4), "skip_case": t.chance(1, 4),
             "folder": "Prince" if t.chance(1, 6) else "Grammar"}
    from .. import session
    flags["queue_size"] = t.choice(session.QUEUE_SIZES)
    if flags["folder"] == "Prince":
        flags["skip_brute"] = False      # prince_ling.py, the only user of that folder, never sets it
    return spec, flags


def run_one(tape, tier, prop):
    res = RunResult()
    spec, flags = gen_world(tape, prop)
    wr = scratch.fresh_disk()
    rdir = os.path.join(wr, "Rules", "R")
    worlds.write_ruleset(spec, rdir)
    res.sample = {"flags": flags, "ruleset": worlds.spec_summary(spec)}
    ref = RefRuleset(rdir, skip_brute=flags["skip_brute"], skip_case=flags["skip_case"], folder=flags["folder"])
    has_m_line = any(s == "M" for s, _ in ref.raw_base)
    if flags["skip_brute"] and (not ref.base or not has_m_line) and flags["folder"] == "Grammar":
        # skip_brute on a ruleset without an M line / with only an M line is C14's subject
        res.stats["deferred_to_C14"] += 1
    lang = collections.Counter()
    for bi, pt in ref.language():
        lang[(ref.base[bi]["prob"], pt)] += 1
    nlang = sum(lang.values())
    if nlang > 4000:
        res.rejected = "language_too_large"
        return res
    if spec.get("exact_group") and ref.guess_count(cap=300000) > 300000:
        res.rejected = "too_many_guesses"
        return res
    romen = RefOmen(os.path.join(rdir, "Omen"))

    out = guesser.LineRecorder()
    err = guesser.Sink()
    heap_problems = []
    emitted = collections.Counter()
    dup_base = any(c > 1 for c in collections.Counter(
        (tuple(b["replacements"]), b["prob"]) for b in ref.base).values())
    do_heap = prop == "C02" and nlang <= 600 and not dup_base
    lang_keys = list(lang) if do_heap else None

    def inspect(q, entry, n):
        key = (ref.canonical_base_prob(entry["pt"], entry["base_prob"]), entry["pt"])
        emitted[key] += 1
        if not do_heap or heap_problems:
            return
        heap_keys = collections.Counter()
        for qi in q.p_queue:
            it = qi.pt_item
            kpt = tuple(tuple(x) for x in it["pt"])
            k = (ref.canonical_base_prob(kpt, it["base_prob"]), kpt)
            heap_keys[k] += 1
            if it["prob"] > entry["prob"]:
                heap_problems.append(("heap_above_last_pop", n, repr(k)))
                return
        for k, c in heap_keys.items():
            # not judged (another correct queue could hold duplicates and drop them on pop); counted as probes,
            # the end-of-run multiset comparison decides
            if c > 1:
                res.stats["probe_duplicate_in_heap"] += 1
            if emitted[k]:
                res.stats["probe_emitted_still_in_heap"] += 1
        # closure
        by_shape = collections.defaultdict(list)
        for k in heap_keys:
            by_shape[(k[0], tuple(x[0] for x in k[1]))].append([x[1] for x in k[1]])
        for k in lang_keys:
            if emitted[k]:
                continue
            idx = [x[1] for x in k[1]]
            cands = by_shape.get((k[0], tuple(x[0] for x in k[1])), ())
            if not any(all(h <= i for h, i in zip(hv, idx)) for hv in cands):
                heap_problems.append(("lost_subtree", n, repr(k)))
                return

    try:
        with guesser.streams(out, err):
            pcfg = guesser.load(rdir, flags["skip_brute"], flags["skip_case"], flags["folder"])
            hist = guesser.exhaust(pcfg, max_pops=nlang * 2 + 10, inspect=inspect, queue_size=flags["queue_size"])
    except Exception as e:
        if flags["skip_brute"] and not ref.base:
            res.rejected = "skip_brute_M_only(C14)"
            return res
        res.violate(prop, "raised", {"exception": traceback.format_exc()[-1500:]})
        res.digest = digest_of(["raised", repr(e)])
        return res

    overflow = bool(hist and hist[-1].get("overflow"))
    if overflow:
        hist.pop()

    # ---------------- C01: order, probability, base_prob -------------------
    ties = 0
    denorm = 0
    prev = None
    c01_bad = None
    seen_probs = collections.Counter()
    for i, h in enumerate(hist):
        p = h["prob"]
        if prev is not None and p > prev and c01_bad is None:
            c01_bad = ("order", {"pop": i, "prob": p, "previous": prev, "pt": repr(h["pt"])})
        prev = p
        seen_probs[p] += 1
        if p == 0.0 or p < 2.3e-308:
            denorm += 1
        bis = ref.base_for_pt(h["pt"], h["base_prob"])
        if not bis:
            if c01_bad is None:
                c01_bad = ("unknown_base", {"pop": i, "pt": repr(h["pt"]), "base_prob": h["base_prob"]})
            continue
        try:
            exact = ref.exact_prob(ref.base[bis[0]], [x[1] for x in h["pt"]])
        except (IndexError, KeyError):
            if c01_bad is None:
                c01_bad = ("index_outside_grammar", {"pop": i, "pt": repr(h["pt"])})
            continue
        if not ulps_close(p, exact, len(h["pt"]) + 1) and c01_bad is None:
            c01_bad = ("probability_not_product", {"pop": i, "pt": repr(h["pt"]), "tool": p, "reference": float(exact)})
    ties = sum(c - 1 for c in seen_probs.values() if c > 1)
    repeated_type = any(len(set(b["replacements"])) < len(b["replacements"]) for b in ref.base)
    if c01_bad:
        res.violate("C01", c01_bad[0], c01_bad[1])
    if overflow:
        res.violate("C01", "does_not_terminate", {"pops": len(hist), "language": nlang})
        res.violate("C02", "does_not_terminate", {"pops": len(hist), "language": nlang})

    # determinism inside the process: a second, independent load+run
    if prop == "C01":
        try:
            with guesser.streams():
                pcfg2 = guesser.load(rdir, flags["skip_brute"], flags["skip_case"], flags["folder"])
                hist2 = guesser.exhaust(pcfg2, max_pops=nlang * 2 + 10, expand=False, queue_size=flags["queue_size"])
            a = [(h["pt"], h["prob"]) for h in hist]
            b = [(h["pt"], h["prob"]) for h in hist2 if not h.get("overflow")]
            if a != b:
                res.violate("C01", "nondeterministic_sequence", {"first_difference": next(
                    (i for i, (x, y) in enumerate(zip(a, b)) if x != y), min(len(a), len(b)))})
        except Exception:
            res.violate("C01", "raised", {"exception": traceback.format_exc()[-1500:]})

    # ---------------- C02: exactly once -----------------------------------
    deferred = flags["skip_brute"] and not has_m_line and flags["folder"] == "Grammar"
    if emitted != lang and not overflow:
        missing = list((lang - emitted).items())[:3]
        extra = list((emitted - lang).items())[:3]
        kind = "missing" if missing else "repeated_or_foreign"
        det = {"language": nlang, "emitted": sum(emitted.values()),
               "missing": repr(missing), "extra": repr(extra)}
        if deferred and not hist:
            res.stats["skip_brute_without_M_emits_nothing"] += 1
            res.violate("C14", "skip_brute_without_M_emits_nothing", det)
        else:
            res.violate("C02", kind, det)
            if prop == "C01":
                pass
    if heap_problems:
        # the queue-state invariants describe this queue design (everything not yet emitted hangs below a queued entry);
        # a queue that parks entries elsewhere and brings them back would break them and still emit the language exactly
        # once.  So they only localise a failure the multiset comparison has established; alone they are a probe.
        k, n, what = heap_problems[0]
        if emitted != lang or overflow:
            res.violate("C02", k, {"after_pop": n, "entry": what})
        else:
            res.stats["probe_queue_invariant_broken_but_language_exact"] += 1
    # parents with exactly equal probability (non-trivial measure for C02)
    tie_parents = 0
    if nlang <= 1500:
        for (bp, pt), _c in lang.items():
            bis = ref.base_for_pt(pt, bp)
            if not bis:
                continue
            b = ref.base[bis[0]]
            pp = []
            for pos, (nm, ix) in enumerate(pt):
                if ix > 0:
                    idx = [x[1] for x in pt]
                    idx[pos] -= 1
                    pp.append(ref.tool_prob(b, idx))
            if len(pp) >= 2 and len(set(pp)) < len(pp):
                tie_parents += 1

    # ---------------- C04: expansion ---------------------------------------
    c04_nontrivial = 0
    for i, h in enumerate(hist):
        lines = guesser.split_lines(h.get("text", ""))
        names = [x[0] for x in h["pt"]]
        if h.get("ret") != len(lines):
            res.violate("C04", "count_mismatch", {"pt": repr(h["pt"]), "returned": h.get("ret"), "lines": len(lines)})
            break
        if h.get("text") and not h["text"].endswith("\n"):
            res.violate("C04", "unterminated_line", {"pt": repr(h["pt"])})
            break
        if "M" in names:
            if names != ["M"]:
                res.stats["m_inside_longer_structure"] += 1
                continue
            grp = ref.vars["M"][h["pt"][0][1]]
            multi_key = None
            try:
                want = []
                for lv in grp["values"]:
                    want.extend(romen.strings(int(lv)))
                first_only = romen.strings(int(grp["values"][0]))
            except OverflowError:
                continue
            if len(grp["values"]) > 1:
                res.stats["m_group_multi_level"] += 1
                if sorted(lines) == sorted(first_only) and sorted(want) != sorted(first_only):
                    multi_key = "markov-group-of-equal-probability-levels:only-first-level-generated"
            if sorted(want) != sorted(lines) and multi_key:
                res.violate("C04", "markov_group_expands_first_level_only", {
                    "levels_in_group": grp["values"], "written": len(lines), "expected": len(want)}, key=multi_key)
                continue
            if sorted(want) != sorted(lines):
                res.violate("C04", "omen_level_mismatch", {
                    "level": grp["values"][0], "want": len(want), "got": len(lines),
                    "missing": sorted(set(want) - set(lines))[:5], "extra": sorted(set(lines) - set(want))[:5],
                    "repeated": [s for s, c in collections.Counter(lines).items() if c > 1][:5]})
                break
            if len(lines) >= 2:
                c04_nontrivial += 1
            continue
        if not ref.base_for_pt(h["pt"]):
            # "one value from each chosen terminal group ... with each chosen capitalisation mask applied": the
            # pre-terminal must name exactly the variables of one of the ruleset's base structures (mask included)
            res.violate("C04", "preterminal_is_not_a_derivation_of_the_ruleset", {"pt": repr(h["pt"]),
                                                                                  "base_structures": [b["text"] for b in ref.base][:6]})
            break
        try:
            want = ref.expand(h["pt"])
        except (ValueError, IndexError, KeyError):
            continue
        if sorted(want) != sorted(lines):
            res.violate("C04", "expansion_mismatch", {
                "pt": repr(h["pt"]), "want": sorted(want)[:8], "got": sorted(lines)[:8],
                "n_want": len(want), "n_got": len(lines)})
            break
        if len(lines) >= 2 and (sum(1 for n in names if n[0] == "A") >= 2 or any(n[0] == "C" for n in names)):
            c04_nontrivial += 1
    # loaded groups agree with the file: same values, same probability for every member
    for var, groups in ref.vars.items():
        got = pcfg.grammar.get(var)
        if got is None:
            continue
        g1 = [(g["prob"], list(g["values"])) for g in groups]
        g2 = [(g["prob"], list(g["values"])) for g in got]
        if g1 != g2:
            res.violate("C04", "group_probability_mismatch", {"variable": var, "reference": repr(g1)[:300],
                                                              "loaded": repr(g2)[:300]})
            break

    res.stats["pops"] += len(hist)
    res.stats["guesses"] += out.nlines
    res.stats["exact_ties"] += ties
    res.stats["zero_or_denormal"] += denorm
    res.stats["nodes_with_tied_parents"] += tie_parents
    res.stats["dup_base_worlds"] += 1 if dup_base else 0
    res.stats["flag_skip_brute"] += 1 if flags["skip_brute"] else 0
    res.stats["flag_all_lower"] += 1 if flags["skip_case"] else 0
    res.stats["folder_prince"] += 1 if flags["folder"] == "Prince" else 0
    res.stats["heap_invariant_runs"] += 1 if do_heap else 0
    ident = digest_of([spec["base"], spec["vars"], spec.get("omen_prob"), flags])
    if prop == "C01":
        nt = ties > 0 or repeated_type or denorm > 0
    elif prop == "C02":
        nt = tie_parents > 0 or repeated_type
    else:
        nt = c04_nontrivial > 0
    res.nontrivial = ident if (nt and hist) else None
    res.shape = (len(ref.base), tuple(sorted(len(b["replacements"]) for b in ref.base)), flags["skip_brute"],
                 flags["skip_case"], flags["folder"], spec["pool"])
    res.digest = digest_of([[(h["pt"], h["prob"], h.get("text")) for h in hist],
                            [v.as_dict() for v in res.violations]])
    return res


# ---------------------------------------------------------------------------
# C01 determinism clause: the pop sequence in fresh interpreters under other hash seeds

def child_digests(seeds):
    from ..tape import Tape
    out = {}
    for sd in seeds:
        r = run_one(Tape(seed=sd), "quick", "C01")
        out[str(sd)] = r.digest
    return out


def extra_phase(tier, base_seed, prop="C01"):
    from .. import bigworld
    if prop == "C04":
        return bigworld.expansion_phase(tier, base_seed)
    big = bigworld.prefix_phase(prop, tier, base_seed)
    wide = bigworld.wide_phase(prop, tier, base_seed)
    big["violations"] = list(big.get("violations", [])) + wide.pop("violations", [])
    big.update(wide)
    if prop != "C01":
        return big
    out = hash_seed_phase(tier, base_seed)
    out["violations"] = list(out.get("violations", [])) + big.pop("violations", [])
    out.update(big)
    return out


def hash_seed_phase(tier, base_seed):
    import json
    import subprocess
    import sys
    n = 40 if tier == "quick" else 300
    seeds = [base_seed * 7477 + 900 + i for i in range(n)]
    here = os.path.dirname(os.path.dirname(os.path.dirname(os.path.abspath(__file__))))
    runs = []
    for hs in ("0", "3", "12345"):
        env = dict(os.environ, PYTHONHASHSEED=hs, PYTHONUTF8="1")
        code = ("import sys, json; sys.path.insert(0, %r); from pcfgsim import scratch; scratch.build(); "
                "from pcfgsim.checks import queue; queue.warm(); json.dump(queue.child_digests(%r), sys.stdout)" % (here, seeds))
        r = subprocess.run([sys.executable, "-W", "ignore", "-c", code], env=env, capture_output=True, text=True, timeout=1800)
        if r.returncode != 0:
            raise RuntimeError("child interpreter failed: " + r.stderr[-1500:])
        runs.append(json.loads(r.stdout))
    out = {"fresh_interpreter_runs": 3 * n, "hash_seeds": [0, 3, 12345], "violations": []}
    for sd in seeds:
        a, b, c = (r[str(sd)] for r in runs)
        if not (a == b == c):
            out["violations"].append({"seed": sd, "tape": [], "violation": {
                "property": "C01", "kind": "sequence_depends_on_hash_seed", "key": None,
                "detail": {"world_seed": sd}}, "case": None})
            break
    return out
