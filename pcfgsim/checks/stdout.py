"""C09: standard output is exactly the guess stream, and --limit is exact.

Whole process images: ``pcfg_guesser.main()`` with ``sys.argv`` set, so the banner,
argument validation, the loader, the session messages and the status thread are all on
the path; stdout and stderr are recording streams.  Fault kinds injected: failing
save-file writes (EACCES / ENOSPC / EROFS on ``open``), keyboard-thread status/help
requests under the scheduler; the honeyword modes run with the simulator's RNG.
"""

import errno
import os
import random as _random
import subprocess
import sys

from .. import guesser, scratch, sched, session, worlds
from ..runner import RunResult, digest_of
from . import resume, threads

CONFIG = {
    "level": "exploration",
    "rule": "one run = synthetic ruleset x flags (skip_brute, all_lower) x mode (true_prob_order / random_walk / honeywords with the "
            "simulator's RNG); unlimited run recorded at the print_guess seam and at the stdout seam; then --limit N for N at "
            "pre-terminal boundaries +-1, inside a group, inside a Markov level, 1, total, total+1; 1 in 4 runs inject a failing "
            "save-file open (EACCES/ENOSPC/EROFS), 1 in 4 run the real keyboard thread with status/help requests under the scheduler; "
            "1 in 3 quick runs and all thorough runs add quit (pop / inside a Markov level) then --load --limit N against --load without limit from the same saved state; oracle: stdout text == guesses joined by LF, and "
            "stdout(N) == first min(N,total) lines of the unlimited run; non-trivial = some N falls strictly inside a pre-terminal "
            "or Markov level, or a fault/thread was active; distinct = distinct (ruleset, flags, mode, N list)",
    "components": {
        "real": ["pcfg_guesser.main/parse_command_line", "banner_info.print_banner", "loader", "CrackingSession.run", "HoneywordSession.run",
                 "PcfgGrammar.create_guesses/print_guess/random_walk", "keypress thread (scheduled runs)"],
        "stub": ["sys.stdout/sys.stderr recorders", "open() for S.sav (fault injection)", "random module in honeyword_session/pcfg_grammar "
                 "(seeded stand-in)", "keyboard/threading/time in scheduled runs"],
        "validated_against": ["3 real `python pcfg_guesser.py` subprocesses per invocation (stdout bytes compared with the in-process capture)"],
    },
    "assumptions": ["honeyword modes never terminate without --limit, so N is compared with a longer limit M",
                    "rulesets that cannot be loaded / invalid arguments are outside the quantifier (every ruleset, every N >= 1)"],
    "quick_budget_s": 35, "thorough_budget_s": 900, "chunk": 8,
}


def warm():
    import pcfg_guesser   # noqa
    session.install()
    threads.find_labels()
    install_print_seam()


_PG = [None]


def install_print_seam():
    """record every guess handed to print_guess (the property's 'guess stream')"""
    import lib_guesser.pcfg_grammar as pg
    if getattr(pg.PcfgGrammar, "_pcfgsim_print", False):
        return
    orig = pg.PcfgGrammar.print_guess

    def print_guess(self, guess):
        if _PG[0] is not None:
            _PG[0].append(guess)
        return orig(self, guess)

    pg.PcfgGrammar.print_guess = print_guess
    pg.PcfgGrammar._pcfgsim_print = True


class SimRandom:
    """stands in for the ``random`` module: a private seeded generator (never the process-global one)"""

    def __init__(self, seed):
        self._r = _random.Random(seed)
        self.seeds = []

    def seed(self, x=None):
        self.seeds.append(x)
        self._r.seed(x)

    def random(self):
        return self._r.random()

    def choice(self, seq):
        return self._r.choice(seq)

    def randint(self, a, b):
        return self._r.randint(a, b)


class FaultyOpen:
    def __init__(self, err, only_suffix=".sav", after=0):
        self.err = err
        self.only_suffix = only_suffix
        self.after = after
        self.fired = 0
        self.calls = 0

    def __call__(self, path, mode="r", *a, **kw):
        if str(path).endswith(self.only_suffix) and ("w" in mode or "a" in mode):
            self.calls += 1
            if self.calls > self.after:
                self.fired += 1
                raise OSError(self.err, os.strerror(self.err), str(path))
        return open(path, mode, *a, **kw)


def run_proc(argv, mode_rng=None, fault=None, events=None, schedule=None, cost=1e-3, trigger=None, stand_in_cost=0.0):
    """one process image; returns (stdout text, guesses at the seam, SessionResult)"""
    import lib_guesser.cracking_session as cs
    import lib_guesser.honeyword_session as hs
    import lib_guesser.pcfg_grammar as pg
    seam = []
    _PG[0] = seam
    saved = (hs.random, pg.random, cs.__dict__.get("open"))
    if mode_rng is not None:
        hs.random = mode_rng
        pg.random = mode_rng
    if fault is not None:
        cs.open = fault
    try:
        if events is not None:
            ctx = session.SessionCtx()
            ctx.cost_per_guess = cost
            sim = sched.Sim(ctx, sched.Keyboard(events), schedule)
            sim.set_line_labels(threads.find_labels())
            box = {}

            def body():
                box["r"] = session.run_main(argv, ctx, threading_obj=sim.threading, input_fn=sim.input, time_obj=sim.time)
            sched.run_scheduled(sim, body)
            r = box["r"]
            r.sim = sim
            _SIGS.append(sim.signature())
        else:
            ctx = session.SessionCtx(trigger=trigger)
            ctx.cost_per_guess = stand_in_cost
            r = session.run_main(argv, ctx)
    finally:
        _PG[0] = None
        hs.random, pg.random = saved[0], saved[1]
        if saved[2] is None:
            cs.__dict__.pop("open", None)
        else:
            cs.open = saved[2]
    return r.stdout, seam, r


def base_argv(flags, mode):
    a = ["-r", "R", "-s", "S"]
    if flags["skip_brute"]:
        a.append("--skip_brute")
    if flags["skip_case"]:
        a.append("--all_lower")
    if mode != "true_prob_order":
        a += ["--mode", mode]
    return a


def gen_world(t):
    if t.chance(1, 2):
        spec, _ = resume.gen_omen_world(t)
        if spec is not None:
            return spec
    return worlds.gen_syn(t, allow_m=True, max_pts=200, max_structs=3, max_vars=3, hostile=t.chance(1, 4))


_SIGS = []


def run_one(tape, tier, prop):
    del _SIGS[:]
    res = _run_one(tape, tier, prop)
    if _SIGS:
        res.interleaving = tuple(map(repr, _SIGS))
    return res


def _run_one(tape, tier, prop):
    res = RunResult()
    t = tape
    res.stats["queue_size_knob_%s" % session.draw_queue_knob(t)] += 1
    spec = gen_world(t)
    has_m = any(s == "M" for s, _ in spec["base"])
    only_m = all(s == "M" for s, _ in spec["base"])
    flags = {"skip_brute": t.chance(1, 4), "skip_case": t.chance(1, 4)}
    if flags["skip_brute"] and only_m:
        flags["skip_brute"] = False          # empty run
    mode = t.choice(["true_prob_order", "true_prob_order", "random_walk", "honeywords"])
    if mode != "true_prob_order":
        worlds.normalise(t, spec)        # honeyword modes walk cumulative sums: lists must be distributions
    wr = scratch.fresh_disk(scratch.draw_place(t))
    rdir = os.path.join(wr, "Rules", "R")
    worlds.write_ruleset(spec, rdir)
    res.sample = {"flags": flags, "mode": mode, "ruleset": worlds.spec_summary(spec)}
    argv = base_argv(flags, mode)
    rng_seed = t.draw(1 << 20)
    notes = []

    def check_pure(text, seam, what):
        want = "".join(g + "\n" for g in seam)
        if text != want:
            i = next((k for k, (a, b) in enumerate(zip(text, want)) if a != b), min(len(text), len(want)))
            res.violate("C09", "stdout_not_guess_stream", {
                "run": what, "first_difference_at_char": i, "stdout_there": text[max(0, i - 20):i + 40],
                "guesses_there": want[max(0, i - 20):i + 40], "stdout_len": len(text), "guesses_len": len(want)})
            return False
        return True

    if mode == "true_prob_order":
        text, seam, r0 = run_proc(argv)
        if r0.exc:
            res.violate("C09", "raised", {"exception": r0.exc[-1200:]})
            return res
        if not check_pure(text, seam, "unlimited"):
            return res
        total = len(seam)
        if total == 0 or total > 5000:
            res.rejected = "stream_size"
            return res
        E = session.emitted_preterminals(r0.ctx)
        bounds = sorted({e["first_line"] for e in E} | {total})
        Ns = {1, total, total + 1}
        inside = False
        for _ in range(4 if tier == "quick" else 10):
            style = t.draw(3)
            if style == 0:
                n = bounds[t.draw(len(bounds))] + t.draw(3) - 1
            else:
                n = 1 + t.draw(total + 1)
            if n >= 1:
                Ns.add(n)
        if t.chance(1, 3):
            # --limit is an unbounded integer: limits beyond the machine word mean "everything"
            Ns.add(t.choice([2 ** 63 - 1, 2 ** 63, 10 ** 19, 2 ** 64, 10 ** 30, 2 ** 31, 2 ** 32]))
        Ns = sorted(Ns)
        inside = any(n not in bounds and n < total for n in Ns)
        lines0 = guesser.split_lines(text)
        for n in Ns:
            fault = None
            events = None
            sch = None
            what = "limit=%d" % n
            r = t.draw(4)
            if r == 0:
                fault = FaultyOpen(t.choice([errno.EACCES, errno.ENOSPC, errno.EROFS]), after=t.draw(2))
                what += " save-fault"
            elif r == 1:
                events = [{"at": t.draw(total + 1), "kind": "line", "text": t.choice(["", "h", "zz"])}
                          for _ in range(t.between(1, 3))]
                events.sort(key=lambda e: e["at"])
                sch = threads.gen_schedule(t, total * 12)
                what += " thread"
            resume.clean_sessions(wr)
            # clock jumps: the virtual cost of a guess may be hours, so elapsed-time formatting reaches days
            tx, sm, rr = run_proc(argv + ["--limit", str(n)], fault=fault, events=events, schedule=sch,
                                  cost=t.choice([1e-3, 1.0, 5000.0, 200000.0]) if events is not None else 1e-3)
            if fault is not None:
                res.faults["save_open_" + errno.errorcode[fault.err]] += fault.fired
            if events is not None:
                res.faults["status_requests"] += len(rr.sim.keyboard.delivered)
            if rr.exc:
                res.violate("C09", "raised", {"run": what, "exception": rr.exc[-1200:]})
                break
            if not check_pure(tx, sm, what):
                break
            got = guesser.split_lines(tx)
            want = lines0[:min(n, total)]
            if got != want:
                res.violate("C09", "limit_not_exact", {"run": what, "limit": n, "total": total, "written": len(got),
                                                       "is_prefix": got == lines0[:len(got)]})
                break
        if (tier == "thorough" or t.chance(1, 3)) and not res.violations:
            load_with_limit(res, t, argv, E, lines0, wr)
        res.stats["limits_tried"] += len(Ns)
        res.nontrivial = digest_of([spec["base"], spec["vars"], flags, mode, Ns]) if inside else None
        res.digest = digest_of([text, Ns, [v.as_dict() for v in res.violations]])
        res.shape = (mode, flags["skip_brute"], flags["skip_case"], len(Ns))
        return res

    # honeyword modes: N against a longer limit M, same RNG
    M = t.between(3, 40)
    if t.chance(1, 4):
        # long sessions: these modes never run out of guesses, so any limit must be reached however many walks
        # end in the Markov structure (which yields no guess) on the way
        M = t.choice([200, 1500, 4000])
        res.stats["long_honeyword_sessions"] += 1
    textM, seamM, rM = run_proc(argv + ["--limit", str(M)], mode_rng=SimRandom(rng_seed))
    if rM.exc:
        if "IndexError" in rM.exc or "list index out of range" in rM.exc:
            res.rejected = "honeyword_run_raised(C16)"
            return res
        res.violate("C09", "raised", {"exception": rM.exc[-1200:]})
        return res
    if not check_pure(textM, seamM, "limit=%d" % M):
        return res
    linesM = guesser.split_lines(textM)
    if len(linesM) != M:
        res.violate("C09", "limit_not_exact", {"mode": mode, "limit": M, "written": len(linesM)})
        return res
    Ns = sorted({1, M - 1, t.between(1, M)} - {0})
    for n in Ns:
        # flags these modes have no use for (--load: there is no session to restore) are part of "every flag combination"
        extra = ["--load"] if t.chance(1, 3) else []
        if extra:
            res.stats["honeyword_runs_with_load_flag"] += 1
        tx, sm, rr = run_proc(argv + extra + ["--limit", str(n)], mode_rng=SimRandom(rng_seed))
        if rr.exc:
            res.violate("C09", "raised", {"exception": rr.exc[-1200:], "argv": argv + extra})
            break
        if not check_pure(tx, sm, "limit=%d" % n):
            break
        got = guesser.split_lines(tx)
        if got != linesM[:n]:
            res.violate("C09", "limit_not_exact", {"mode": mode, "limit": n, "written": len(got),
                                                   "is_prefix": got == linesM[:len(got)]})
            break
    res.stats["honeyword_runs"] += 1 + len(Ns)
    res.nontrivial = digest_of([spec["base"], spec["vars"], flags, mode, M, Ns])
    res.digest = digest_of([textM, Ns, [v.as_dict() for v in res.violations]])
    res.shape = (mode, flags["skip_brute"], flags["skip_case"], len(Ns))
    return res


def load_with_limit(res, t, argv, E, lines0, wr):
    """quit inside a Markov level, then --load --limit N: the resumed output must be exactly
    the next N lines of the stream"""
    ms = [e for e in E if resume.is_m(e["pt"])]
    total = len(lines0)
    resume.clean_sessions(wr)
    if ms and t.chance(2, 3):
        e = ms[t.draw(len(ms))]
        nxt = [x["first_line"] for x in E if x["first_line"] > e["first_line"]]
        n_in = (nxt[0] if nxt else total) - e["first_line"]
        if n_in < 2:
            return
        j = t.between(1, n_in - 1)
        cut = e["first_line"] + j
        trig = ("guess", cut)
    else:
        k = t.between(1, len(E))
        cut = E[k - 1]["first_line"]
        trig = ("pop", k)
    # the interrupted process may have been running for (virtual) days: the saved running time is then large
    tx, sm, rr = run_proc(argv, trigger=trig, stand_in_cost=t.choice([0.0, 0.01, 9000.0, 90000.0]))
    if rr.exc:
        res.violate("C09", "raised", {"run": "quit", "exception": rr.exc[-1200:]})
        return
    if tx != "".join(g + "\n" for g in sm):
        res.violate("C09", "stdout_not_guess_stream", {"run": "quit at %r" % (trig,), "stdout_lines": tx.count("\n"), "guesses": len(sm)})
        return
    if not rr.ctx.fired or len(sm) != cut:
        return
    res.faults["quit_then_load_with_limit"] += 1
    saved = {}
    for fn in ("S.sav", "S.omn"):
        pth = os.path.join(wr, fn)
        if os.path.exists(pth):
            saved[fn] = open(pth, "rb").read()

    def restore_files():
        for fn in ("S.sav", "S.omn"):
            pth = os.path.join(wr, fn)
            if fn in saved:
                open(pth, "wb").write(saved[fn])
            elif os.path.exists(pth):
                os.unlink(pth)

    # reference: the same saved state resumed without a limit
    txu, smu, ru = run_proc(argv + ["--load"])
    if ru.exc:
        res.violate("C09", "raised", {"run": "load", "exception": ru.exc[-1200:]})
        return
    if txu != "".join(g + "\n" for g in smu):
        res.violate("C09", "stdout_not_guess_stream", {"run": "load"})
        return
    lines_u = guesser.split_lines(txu)
    for n in sorted({1, t.between(1, len(lines_u) + 1), t.between(1, max(1, min(len(lines_u), 12)))}):
        restore_files()
        ev = None
        sch = None
        if t.chance(1, 2):
            # status / help requests typed while the resumed process is generating
            ev = [{"at": t.draw(n + 1), "kind": "line", "text": t.choice(["", "h", "zz"])} for _ in range(t.between(1, 2))]
            ev.sort(key=lambda e: e["at"])
            sch = threads.gen_schedule(t, 200)
            sch["main_first"] = False
        tx2, sm2, r2 = run_proc(argv + ["--load", "--limit", str(n)], events=ev, schedule=sch, cost=t.choice([1e-3, 3000.0]))
        if r2.exc:
            res.violate("C09", "raised", {"run": "load+limit", "exception": r2.exc[-1200:]})
            return
        if tx2 != "".join(g + "\n" for g in sm2):
            res.violate("C09", "stdout_not_guess_stream", {"run": "load+limit"})
            return
        got = guesser.split_lines(tx2)
        if got != lines_u[:min(n, len(lines_u))]:
            res.violate("C09", "limit_not_exact_after_load", {"limit": n, "written": len(got), "resumed_total": len(lines_u),
                                                             "cut": cut, "trigger": repr(trig),
                                                             "is_prefix": got == lines_u[:len(got)]})
            return


# ---------------------------------------------------------------------------
# validation of the in-process capture against real processes

def extra_phase(tier, base_seed):
    from ..tape import Tape
    out = {"real_process_runs": 0, "violations": []}
    code = scratch.code_dir()
    wr = scratch.fresh_disk()
    for i in range(3):
        t = Tape(seed=base_seed * 7919 + 100 + i)
        spec = gen_world(t)
        flags = {"skip_brute": False, "skip_case": bool(i % 2)}
        rdir = os.path.join(code, "Rules", "R")
        import shutil
        shutil.rmtree(os.path.join(code, "Rules"), ignore_errors=True)
        worlds.write_ruleset(spec, rdir)
        shutil.rmtree(os.path.join(wr, "Rules"), ignore_errors=True)
        os.makedirs(os.path.join(wr, "Rules"))
        worlds.write_ruleset(spec, os.path.join(wr, "Rules", "R"))
        argv = base_argv(flags, "true_prob_order")
        text, seam, r0 = run_proc(argv)
        limit = max(1, len(seam) // 2)
        text_l, _, _ = run_proc(argv + ["--limit", str(limit)])
        for extra, want in (([], text), (["--limit", str(limit)], text_l)):
            p = subprocess.Popen([sys.executable, "-W", "ignore", os.path.join(code, "pcfg_guesser.py")] + argv + extra,
                                 stdin=subprocess.PIPE, stdout=subprocess.PIPE, stderr=subprocess.DEVNULL,
                                 env=scratch.child_env(PYTHONUTF8="1", PYTHONHASHSEED=str(1 + 4441 * i + (7 if extra else 0))))
            try:
                so, _ = p.communicate(timeout=120)
            except subprocess.TimeoutExpired:
                p.kill()
                raise
            out["real_process_runs"] += 1
            if so.decode("utf-8", "surrogateescape") != want:
                out["violations"].append({"seed": base_seed, "tape": list(t.rec), "violation": {
                    "property": "C09", "kind": "real_process_differs_from_simulation", "key": None,
                    "detail": {"argv": argv + extra, "real_len": len(so), "sim_len": len(want),
                               "real_head": so[:80].decode("utf-8", "replace"), "sim_head": want[:80]}}, "case": None})
        # the ordinary interactive use: stdin is a terminal nobody types on (the status/quit listener stays blocked in
        # input() until the end), stdout is a pipe to the cracker.  Only what arrives on the pipe is judged: the
        # exit status is not part of the property.
        import pty
        master, slave = pty.openpty()
        try:
            p = subprocess.Popen([sys.executable, "-W", "ignore", os.path.join(code, "pcfg_guesser.py")] + argv +
                                 ["--limit", str(limit)], stdin=slave, stdout=subprocess.PIPE, stderr=subprocess.DEVNULL,
                                 env=scratch.child_env(PYTHONUTF8="1", PYTHONHASHSEED=str(3 + 977 * i)))
            os.close(slave)
            slave = None
            try:
                so, _ = p.communicate(timeout=120)
            except subprocess.TimeoutExpired:
                p.kill()
                raise
        finally:
            os.close(master)
            if slave is not None:
                os.close(slave)
        out["real_process_runs"] += 1
        out["real_process_runs_with_terminal_on_stdin"] = out.get("real_process_runs_with_terminal_on_stdin", 0) + 1
        if so.decode("utf-8", "surrogateescape") != text_l:
            out["violations"].append({"seed": base_seed, "tape": list(t.rec), "violation": {
                "property": "C09", "kind": "real_process_with_terminal_on_stdin_differs_from_simulation", "key": None,
                "detail": {"argv": argv + ["--limit", str(limit)], "real_len": len(so), "sim_len": len(text_l),
                           "exit_status": p.returncode,
                           "real_tail": so[-60:].decode("utf-8", "replace"), "sim_tail": text_l[-60:]}}, "case": None})
        for fn in os.listdir(code):
            if fn.endswith(".sav") or fn.endswith(".omn"):
                os.unlink(os.path.join(code, fn))
        shutil.rmtree(os.path.join(code, "Rules"), ignore_errors=True)
    from .. import bigworld
    big = bigworld.limit_phase(tier, base_seed)
    out["violations"].extend(big.pop("violations", []))
    out.update(big)
    return out
