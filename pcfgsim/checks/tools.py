"""C17 (PRINCE-LING) and C20 (edit_rules): tool process images over the scratch disk.

Both tools are run through their ``main()`` with ``sys.argv`` set, on rulesets that live
on the worker's scratch disk.  C17 records both sinks (stdout seam and ``-o`` file);
C20 snapshots the whole scratch tree before and after the edit and then lets the real
guesser run over the edited disk.
"""

import collections
import hashlib
import os
import re
import sys

from .. import guesser, scratch, session, trainer, worlds
from ..refmodel import RefRuleset, ulps_close
from ..runner import RunResult, digest_of

CONFIGS = {
    "C17": {
        "level": "exploration",
        "rule": "one run = ruleset (synthetic with tie groups of 1-8 equal words, or trainer-written) x all_lower; prince_ling.main() "
                "unbounded to stdout and to -o file, then --size N for EVERY N in 1..total+1 when total <= 60 (exhaustive over N per "
                "world) else 12 sampled N incl. group boundaries +-1; oracle: pops non-increasing, probability = exact product, "
                "multiset == reference PRINCE language, file == stdout, bounded == first min(N,total) lines; non-trivial = some N "
                "falls strictly inside a group of >= 2 equally probable words; distinct = distinct (ruleset, flag)",
        "components": {"real": ["prince_ling.main/parse_command_line", "lib_princeling.wordlist_generation", "PcfgGrammar(Prince folder)",
                                "PcfgQueue", "create_guesses/save_to_file"], "stub": ["stdout/stderr recorders"]},
        "assumptions": [],
        "quick_budget_s": 30, "thorough_budget_s": 600, "chunk": 8,
    },
    "C20": {
        "level": "exploration",
        "rule": "one run = ruleset with every label shape (multi-digit and three-digit lengths, Y1, X1, K, M) x drawn --min_length/--max_length x "
                "--terminal_set x --regex x --copy, as a history of 1-3 successive edits (each a new edit_rules.main() process image working on what the "
                "previous one left on the scratch disk; the first grammar.txt sometimes hand-edited: no final line end, or CRLF) with the whole tree hashed before and after every edit; "
                "oracle: grammar.txt == original lines minus the failing ones, byte for byte and in order; nothing else changed; with "
                "--copy the source is untouched and the copy differs only in grammar.txt; then the real guesser (skip_brute) runs over "
                "the edited disk and every guess length is checked against the bounds; non-trivial = at least one structure removed "
                "and one kept; distinct = distinct (ruleset, options)",
        "components": {"real": ["edit_rules.main/edit_length/edit_terminal_set/check_regex", "shutil.copytree", "guesser loader/queue/expansion"],
                       "stub": ["stdout recorder"]},
        "assumptions": ["length arithmetic as the tool documents it: A/D/O/K/X = their number, Y = 4, zero-length (Markov) kept"],
        "quick_budget_s": 30, "thorough_budget_s": 600, "chunk": 8,
    },
}


def warm():
    import prince_ling     # noqa
    import edit_rules      # noqa
    import lib_princeling.wordlist_generation as wg
    session.install()
    wg.PcfgQueue = session.recording_queue_class()
    trainer.install()


def run_tool(modname, argv, ctx=None):
    import importlib
    mod = importlib.import_module(modname)
    wr = scratch.worker_root()
    scratch.point_tools_at(wr, (modname,))
    out = guesser.LineRecorder()
    if ctx is not None:
        out.on_line = ctx.on_line
    err = guesser.Sink()
    old = sys.argv
    sys.argv = [modname + ".py"] + list(argv)
    exc = None
    session._CUR[0] = ctx
    try:
        with guesser.streams(out, err):
            try:
                mod.main()
            except SystemExit:
                pass
    except Exception:
        import traceback
        exc = traceback.format_exc()
    finally:
        session._CUR[0] = None
        sys.argv = old
    return out.text(), exc


# ---------------------------------------------------------------------------
# C17

def gen_prince_world(t):
    if t.chance(1, 3):
        pws, opts = trainer.gen_list(t, {"nonascii": t.chance(1, 3), "sites": t.chance(1, 3)}, max_lines=25)
        scratch.fresh_disk()
        tr = trainer.train(pws, opts)
        if tr.ok:
            return {"kind": "trained", "passwords": pws[:12], "opts": opts}, tr.rule_dir
    wr = scratch.fresh_disk()
    spec = worlds.gen_syn(t, allow_m=False, max_pts=100, pools=["tie", "dyadic", "normalised", "decimal", "longtail", "tiny"])
    # widen some groups to 1-8 equally probable words
    for var, groups in spec["vars"].items():
        if var[0] in "AD" and t.chance(1, 2):
            g = groups[t.draw(len(groups))]
            used = {v for gg in groups for v in gg[1]}
            g[1].extend(worlds._values_for(t, var[0], int(var[1:]), t.between(1, 6), used, False))
    names = [v for v in spec["vars"] if v[0] != "C"]
    pr = worlds._descending_probs(t, t.choice(["normalised", "tie", "dyadic", "longtail"]), min(5, len(names)))
    spec["prince"] = [[n, pr[min(i, len(pr) - 1)]] for i, n in enumerate(names)]
    rdir = os.path.join(wr, "Rules", "R")
    worlds.write_ruleset(spec, rdir)
    return {"kind": "syn", "ruleset": worlds.spec_summary(spec), "prince": spec["prince"]}, rdir


def run_c17(t, tier, res):
    res.stats["queue_size_knob_%s" % session.draw_queue_knob(t)] += 1
    sample, rdir = gen_prince_world(t)
    lower = t.chance(1, 3)
    res.sample = dict(sample, all_lower=lower)
    wr = scratch.worker_root()
    base = ["-r", "R"] + (["--all_lower"] if lower else [])
    ctx = session.SessionCtx()
    text, exc = run_tool("prince_ling", base, ctx)
    if exc:
        res.violate("C17", "raised", {"exception": exc[-900:]})
        return
    lines = guesser.split_lines(text)
    total = len(lines)
    if total == 0:
        # nothing written: fine only if the reference PRINCE language is empty too
        try:
            ref0 = RefRuleset(rdir, skip_case=lower, folder="Prince")
            n0 = sum(1 for _ in ref0.language())
        except Exception:
            n0 = 0
        if n0:
            res.violate("C17", "wordlist_is_not_the_prince_language", {"written": 0, "reference_word_groups": n0})
            return
        res.rejected = "empty_prince_grammar"
        return
    if total > 4000:
        res.rejected = "too_large"
        return
    ref = RefRuleset(rdir, skip_case=lower, folder="Prince")
    E = session.emitted_preterminals(ctx)
    prev = None
    lang = collections.Counter()
    for bi, pt in ref.language():
        lang[pt] += 1
    got = collections.Counter()
    want_lines = collections.Counter()
    for i, e in enumerate(E):
        if e["prob"] is None:
            res.violate("C17", "foreign_preterminal", {"pt": repr(e["pt"])})
            return
        if prev is not None and e["prob"] > prev:
            res.violate("C17", "not_most_probable_first", {"index": i, "prob": e["prob"], "previous": prev, "pt": repr(e["pt"])})
            return
        prev = e["prob"]
        got[e["pt"]] += 1
        bis = ref.base_for_pt(e["pt"])
        if not bis or not any(ulps_close(e["prob"], ref.exact_prob(ref.base[b], [x[1] for x in e["pt"]]), len(e["pt"]) + 1) for b in bis):
            res.violate("C17", "probability_not_product", {"pt": repr(e["pt"]), "prob": e["prob"]})
            return
        try:
            want_lines.update(ref.expand(e["pt"]))
        except Exception:
            pass
    if got != lang:
        res.violate("C17", "wordlist_is_not_the_prince_language", {"missing": repr(list((lang - got).items())[:3]),
                                                                   "extra": repr(list((got - lang).items())[:3])})
        return
    if collections.Counter(lines) != want_lines:
        d1 = list((want_lines - collections.Counter(lines)).items())[:3]
        d2 = list((collections.Counter(lines) - want_lines).items())[:3]
        res.violate("C17", "words_differ_from_expansion", {"missing": repr(d1), "extra": repr(d2)})
        return
    # -o file == stdout
    ofile = os.path.join(wr, "prince_out.txt")
    text2, exc = run_tool("prince_ling", base + ["-o", ofile])
    if exc:
        res.violate("C17", "raised", {"exception": exc[-900:], "sink": "file"})
        return
    try:
        ftext = open(ofile, "rb").read().decode(ref.encoding, "surrogateescape")
    except OSError:
        res.violate("C17", "output_file_missing", {})
        return
    if ftext != text:
        res.violate("C17", "file_differs_from_stdout", {"file_lines": ftext.count("\n"), "stdout_lines": total})
        return
    if text2 != "":
        res.stats["stdout_not_empty_when_writing_file"] += 1      # not judged: the property does not say
    # --size N
    bounds = sorted({e["first_line"] for e in E} | {total})
    if total <= 60 or tier == "thorough" and total <= 300:
        Ns = list(range(1, total + 2))
        res.stats["worlds_exhaustive_over_N"] += 1
    else:
        Ns = sorted({1, total, total + 1} | {max(1, bounds[t.draw(len(bounds))] + t.draw(3) - 1) for _ in range(6)}
                    | {1 + t.draw(total) for _ in range(4)})
    inside = False
    for n in Ns:
        if n < total and n not in bounds:
            inside = True
        sink_file = t.chance(1, 4)
        args = base + ["--size", str(n)] + (["-o", ofile] if sink_file else [])
        tx, exc = run_tool("prince_ling", args)
        if exc:
            res.violate("C17", "raised", {"exception": exc[-900:], "size": n})
            return
        if sink_file:
            tx = open(ofile, "rb").read().decode(ref.encoding, "surrogateescape")
        gl = guesser.split_lines(tx)
        if gl != lines[:min(n, total)]:
            res.violate("C17", "size_not_honoured", {"size": n, "written": len(gl), "total": total,
                                                     "is_prefix": gl[:min(len(gl), total)] == lines[:min(len(gl), total)],
                                                     "sink": "file" if sink_file else "stdout"})
            return
    res.stats["sizes_tried"] += len(Ns)
    res.nontrivial = digest_of([sample, lower]) if inside else None
    res.shape = (sample["kind"], lower, min(total, 100) // 10)
    res.digest = digest_of([text, Ns])


# ---------------------------------------------------------------------------
# C20

TOK = re.compile(r"([A-Z])([0-9]*)")
REGEXES = ["^A", "D", "^[AD0-9]+$", "A[0-9]+D", "O|K", "Y1$", "^.{2}", "X", "\\d", "^A\\d+", "[A-Z]\\d\\d", "\\bA", "^\\w+$", "[0-9]{2}", "^M$|A"]


def tree_snapshot(root):
    out = {}
    for dp, dn, fns in os.walk(root):
        dn.sort()
        for fn in sorted(fns):
            p = os.path.join(dp, fn)
            out[os.path.relpath(p, root)] = hashlib.sha1(open(p, "rb").read()).hexdigest()
    return out


def doc_length(structure):
    total = 0
    for letter, num in TOK.findall(structure):
        if letter in "ADOKX":
            total += int(num or 0)
        elif letter == "Y":
            total += 4
    return total


def expected_grammar(orig_bytes, opt):
    keep = []
    for raw in orig_bytes.decode("ascii").split("\n"):
        if not raw:
            continue
        structure, prob = raw.split("\t")[0], raw.split("\t")[1].strip()
        ok = True
        if opt["min"] or opt["max"]:
            L = doc_length(structure)
            if L == 0:
                ok = True
            else:
                ok = L >= opt["min"] and (not opt["max"] or L <= opt["max"])
        if ok and opt["terminals"]:
            ok = all(letter in opt["terminals"] for letter, _ in TOK.findall(structure))
        if ok and opt["regex"]:
            ok = all(re.search(r, structure) for r in opt["regex"])
        if ok:
            keep.append(structure + "\t" + prob + "\n")
    return "".join(keep).encode("ascii")


def run_c20(t, tier, res):
    wr = scratch.fresh_disk()
    menu = ["A1", "D1", "A2", "D2", "O1", "A3", "Y1", "X1", "K4", "O2", "D3", "A4", "A10", "D11", "O3", "K5", "D4"]
    if t.chance(1, 4):
        menu = menu + ["A60", "D40", "A100", "O99", "D101", "A228"]      # multi-digit / three-digit lengths
    spec = worlds.gen_syn(t, allow_m=t.chance(1, 2), max_pts=300, max_structs=6, max_vars=4, menu=menu,
                          pools=["normalised", "dyadic", "decimal"])
    if t.chance(1, 6):
        spec["encoding"] = t.choice(["utf-8-sig", "iso-8859-1", "cp1251"])
    rdir = os.path.join(wr, "Rules", "R")
    worlds.write_ruleset(spec, rdir)
    # a hand-edited base-structure file: last line without a line end, or CRLF line ends
    gfile = os.path.join(rdir, "Grammar", "grammar.txt")
    hand = t.draw(8)
    if hand in (0, 1):
        data = open(gfile, "rb").read()
        open(gfile, "wb").write(data.rstrip(b"\n"))
        res.stats["grammar_without_final_newline"] += 1
    elif hand == 2:
        data = open(gfile, "rb").read()
        open(gfile, "wb").write(data.replace(b"\n", b"\r\n"))
        res.stats["grammar_with_crlf"] += 1
    # a history of 1-3 edits, each a new process image working on what the previous one left on the disk
    nsteps = t.choice([1, 1, 2, 2, 3])
    src = "R"
    all_args = []
    removed_any = kept_any = False
    shape = None
    for step in range(nsteps):
        out = edit_step(t, res, wr, src, step, all_args)
        if out is None:
            break
        src, n_orig, n_kept, shape = out
        removed_any = removed_any or n_kept < n_orig
        kept_any = n_kept > 0
        if n_kept == 0:
            break
    res.sample = {"ruleset": worlds.spec_summary(spec), "edits": all_args}
    res.stats["edit_steps"] += len(all_args)
    res.stats["histories_with_2plus_edits"] += 1 if len(all_args) >= 2 else 0
    res.nontrivial = digest_of([spec["base"], all_args]) if (removed_any and kept_any) else None
    res.shape = (shape, len(all_args))
    res.digest = digest_of([tree_snapshot(os.path.join(wr, "Rules")), [v.as_dict() for v in res.violations]])


def edit_step(t, res, wr, src, step, all_args, guess_cap=20000, force_copy=False):
    """one edit_rules.main() process image on ruleset `src`; returns (ruleset to edit next, lines before, lines kept, shape)
    or None after a violation"""
    rdir = os.path.join(wr, "Rules", src)
    opt = {"min": t.choice([0, 0, 1, 2, 3, 4, 6, 8, 12]), "max": t.choice([0, 0, 3, 4, 5, 6, 8, 10, 14]),
           "terminals": None, "regex": None, "copy": t.chance(1, 3) or force_copy}
    if opt["min"] and opt["max"] and opt["min"] > opt["max"] and t.chance(3, 4):
        opt["min"], opt["max"] = opt["max"], opt["min"]
    args = ["-r", src]
    if opt["min"]:
        args += ["--min_length", str(opt["min"])]
    if opt["max"]:
        args += ["--max_length", str(opt["max"])]
    if t.chance(1, 3):
        letters = t.sample(list("ADOKYXM"), t.between(1, 6))
        opt["terminals"] = letters
        args += ["--terminal_set", ",".join(l.lower() if t.chance(1, 3) else l for l in letters)]
    if t.chance(1, 3):
        opt["regex"] = t.sample(REGEXES, t.between(1, 2))
        args += ["--regex", ",".join(opt["regex"])]
    target = src
    recopy = False
    if opt["copy"]:
        target = "RC%d" % step
        existing = sorted(d for d in os.listdir(os.path.join(wr, "Rules")) if d.startswith("RC") and d != src)
        if existing and t.chance(1, 3):
            # the same --copy name as an earlier run: the copy exists already
            target = existing[t.draw(len(existing))]
            recopy = True
        args += ["--copy", target]
    all_args.append(args)
    before = tree_snapshot(os.path.join(wr, "Rules"))
    orig = open(os.path.join(rdir, "Grammar", "grammar.txt"), "rb").read()
    decoy = None
    old_cwd = os.getcwd()
    if guess_cap > 0 and t.chance(1, 6):
        # environment: the tool is started from a directory that happens to hold a directory named like the ruleset
        # (a backup, an export) -- rulesets are looked up under Rules/ next to the tool, never in the working directory
        import shutil
        decoy = os.path.join(wr, "cwd_%d" % step)
        shutil.rmtree(decoy, ignore_errors=True)
        shutil.copytree(rdir, os.path.join(decoy, src))
        if opt["copy"] and t.chance(1, 2):
            os.makedirs(os.path.join(decoy, "other"), exist_ok=True)
        os.chdir(decoy)
        res.faults["working_directory_holds_a_directory_named_like_the_ruleset"] += 1
    try:
        _text, exc = run_tool("edit_rules", args)
    finally:
        os.chdir(old_cwd)
    if decoy is not None:
        dsnap = tree_snapshot(decoy)
        import shutil
        changed = [k for k, v in dsnap.items() if before.get(k) != v]      # (same relative names as under Rules/)
        shutil.rmtree(decoy, ignore_errors=True)
        if changed:
            res.violate("C20", "file_outside_the_rules_directory_changed", {"files": changed[:4], "args": args, "cwd": "a directory holding %s/" % src})
            return None
    if exc and recopy:
        # refusing to copy over an existing ruleset is fine -- as long as nothing at all was touched
        res.faults["copy_into_an_existing_ruleset_refused"] += 1
        after = tree_snapshot(os.path.join(wr, "Rules"))
        changed = sorted(k for k in set(before) | set(after) if before.get(k) != after.get(k))
        if changed:
            res.violate("C20", "other_file_changed", {"files": changed[:4], "args": args, "step": step, "after": "a refused --copy"})
        return None
    if exc:
        res.violate("C20", "raised", {"exception": exc[-900:], "args": args, "step": step})
        return None
    after = tree_snapshot(os.path.join(wr, "Rules"))
    if recopy:
        # the tool went ahead although the copy existed: whatever it did, the source named by --rule stays as it was
        res.faults["copy_into_an_existing_ruleset_accepted"] += 1
        changed = sorted(k for k in before if k.startswith(src + os.sep) and before.get(k) != after.get(k))
        if changed:
            res.violate("C20", "copy_modified_the_source", {"files": changed[:4], "args": args, "step": step})
        return None
    gpath = os.path.join(target, "Grammar", "grammar.txt")
    want = expected_grammar(orig, opt)
    got = open(os.path.join(wr, "Rules", gpath), "rb").read() if gpath in after else None
    if got is None:
        res.violate("C20", "edited_grammar_missing", {"args": args, "step": step})
        return None

    def parsed(b):
        out = []
        for raw in b.decode("ascii", "replace").replace("\r\n", "\n").split("\n"):
            if raw.strip():
                f = raw.split("\t")
                try:
                    out.append((f[0], float(f[1])))
                except (IndexError, ValueError):
                    out.append((raw, None))
        return out
    if got != want and parsed(got) == parsed(want):
        res.stats["grammar_bytes_differ_but_same_meaning"] += 1
    elif got != want:
        gl, wl = got.decode("ascii", "replace").split("\n"), want.decode("ascii").split("\n")
        res.violate("C20", "grammar_not_original_minus_failing", {
            "args": args, "step": step, "earlier_edits": repr(all_args[:-1]),
            "removed_but_should_stay": [l for l in wl if l and l not in gl][:4],
            "kept_but_should_go": [l for l in gl if l and l not in wl][:4],
            "order_or_bytes_only": sorted(gl) == sorted(wl)})
        return None
    # nothing else touched
    for path, h in before.items():
        if path == gpath:
            continue
        if after.get(path) != h:
            res.violate("C20", "other_file_changed", {"file": path, "args": args, "step": step})
            return None
    if opt["copy"]:
        for path, h in after.items():
            if path.startswith(target + os.sep) and path != gpath:
                srcp = src + path[len(target):]
                if before.get(srcp) != h:
                    res.violate("C20", "copy_differs_beyond_grammar", {"file": path})
                    return None
        extra = [p for p in after if p not in before and not p.startswith(target + os.sep)]
    else:
        extra = [p for p in after if p not in before]
    if extra:
        res.violate("C20", "unexpected_new_file", {"files": extra[:4]})
        return None
    # guesser over the edited disk
    n_orig = len(parsed(orig))
    n_kept = len(parsed(want))
    if (opt["min"] or opt["max"]) and n_kept and guess_cap > 0:
        from lib_guesser.priority_queue import PcfgQueue
        out = guesser.LineRecorder()
        try:
            with guesser.streams(out, guesser.Sink()):
                pcfg = guesser.load(os.path.join(wr, "Rules", target), skip_brute=True)
                q = PcfgQueue(pcfg)
                nguess = 0
                while nguess < guess_cap:
                    item = q.next()
                    if item is None:
                        break
                    out.take()
                    pcfg.create_guesses(item["pt"])
                    for g in guesser.split_lines(out.take()):
                        nguess += 1
                        L = len(g)
                        okay = L >= opt["min"] and (not opt["max"] or L <= opt["max"])
                        if not okay:
                            xs = [pcfg.grammar[n][i]["values"] for n, i in item["pt"] if n[0] == "X"]
                            import itertools
                            slacks = {sum(c) for c in itertools.product(*[sorted({len(v) - 1 for v in vals}) for vals in xs])} if xs else set()
                            adj_ok = any((L - s) >= opt["min"] and (not opt["max"] or (L - s) <= opt["max"]) for s in slacks)
                            key = "edit_length:X1-counted-as-1" if adj_ok else None
                            res.violate("C20", "guess_length_outside_bounds", {
                                "guess": g, "length": L, "min": opt["min"], "max": opt["max"], "pt": repr(item["pt"])}, key=key)
                            if key is None:
                                return None
                            break
        except Exception:
            import traceback
            res.violate("C20", "guesser_raised_on_edited_ruleset", {"exception": traceback.format_exc()[-700:], "args": args})
            return None
        res.stats["guesses_length_checked"] += nguess
    res.stats["copy_runs"] += 1 if opt["copy"] else 0
    return target, n_orig, n_kept, (bool(opt["min"]), bool(opt["max"]), bool(opt["terminals"]), bool(opt["regex"]), opt["copy"])


def run_one(tape, tier, prop):
    res = RunResult()
    with guesser.streams():
        {"C17": run_c17, "C20": run_c20}[prop](tape, tier, res)
    return res


# ---------------------------------------------------------------------------
# C17 across real processes: "the first N of the unbounded list" and "the same list to a file" are statements about
# separate invocations of prince_ling.py, each a fresh interpreter with its own string-hash seed

def shipped_edit_job(name, seed, inflate=False):
    """a history of 2-3 edits on a scratch copy of a shipped ruleset (11 000 - 37 000 base structures of every shape the
    trainer writes), judged by the same edit_step oracle"""
    import shutil
    from .. import bigworld
    from ..tape import Tape
    t = Tape(seed=seed)
    res = RunResult()
    wr = scratch.fresh_disk()
    shutil.copytree(bigworld.shipped_dir(name), os.path.join(wr, "Rules", "S0"))
    src = "S0"
    all_args = []
    if inflate:
        # a base-structure file of several MiB (a ruleset trained on a very large list): 150 000 - 250 000 further
        # structures spelled with the ruleset's own variables, so that sizes differ by orders of magnitude between files
        ref = bigworld.ref_for(name)
        labels = sorted(v for v in ref.vars if v[0] in "ADOKXY" and ref.vars[v])
        gfile = os.path.join(wr, "Rules", "S0", "Grammar", "grammar.txt")
        have = {b["text"] for b in ref.base}
        lines = []
        target = t.between(150000, 250000)
        while len(lines) < target:
            s = "".join(labels[t.draw(len(labels))] for _ in range(5))
            if s not in have:
                have.add(s)
                lines.append("%s\t1e-12\n" % s)
        with open(gfile, "ab") as f:
            f.write("".join(lines).encode("ascii"))
    with guesser.streams():
        for step in range(t.between(2, 3)):
            # (the multi-MiB grammar is always edited into a copy once: what a copy shares with its source shows there)
            out = edit_step(t, res, wr, src, step, all_args, guess_cap=0 if inflate else 3000, force_copy=inflate and step == 0)
            if out is None:
                break
            src, n_orig, n_kept, _shape = out
            if n_kept == 0:
                break
    shutil.rmtree(os.path.join(wr, "Rules"), ignore_errors=True)
    return {"name": name, "edits": all_args, "inflated": inflate, "violations": [v.as_dict() for v in res.violations if v.prop == "C20" and v.key is None],
            "guesses": res.stats.get("guesses_length_checked", 0)}


def shipped_edit_phase(tier, base_seed):
    from .. import bigworld
    names = bigworld.available()
    out = {"shipped_ruleset_edit_histories": 0, "shipped_ruleset_edits": 0, "shipped_ruleset_guess_lengths_checked": 0, "violations": []}
    if not names:
        return out
    jobs = [(names[(base_seed + i) % len(names)], base_seed * 7001 + 11 + i, i % 2 == 0) for i in range(2 if tier == "quick" else 12)]
    for r in bigworld._fan_out(shipped_edit_job, jobs, workers=6):
        out["shipped_ruleset_edit_histories"] += 1
        out["shipped_ruleset_edits"] += len(r["edits"])
        out["shipped_ruleset_histories_with_multi_MiB_grammar"] = out.get("shipped_ruleset_histories_with_multi_MiB_grammar", 0) + (1 if r["inflated"] else 0)
        out["shipped_ruleset_guess_lengths_checked"] += r["guesses"]
        for v in r["violations"][:1]:
            v = dict(v, kind="shipped_ruleset:" + v["kind"])
            v["detail"] = dict(v["detail"], ruleset=r["name"], edits=repr(r["edits"]))
            out["violations"].append({"seed": base_seed, "tape": [], "violation": v, "case": None})
    return out


def extra_phase(tier, base_seed, prop="C17"):
    if prop == "C20":
        from .. import boundary
        out = shipped_edit_phase(tier, base_seed)
        b = boundary.c20_phase(tier, base_seed)
        out["violations"].extend(b.pop("violations", []))
        out.update(b)
        return out
    if prop != "C17":
        return {}
    import shutil
    import subprocess
    from ..tape import Tape
    out = {"real_process_runs": 0, "hash_seeds_used": [], "violations": []}
    code = scratch.code_dir()
    nworlds = 3 if tier == "quick" else 12
    for i in range(nworlds):
        t = Tape(seed=base_seed * 6007 + 300 + i)
        with guesser.streams():
            sample, rdir = gen_prince_world(t)
        shutil.rmtree(os.path.join(code, "Rules"), ignore_errors=True)
        shutil.copytree(rdir, os.path.join(code, "Rules", "R"))
        lower = bool(i % 2)
        base = ["-r", "R"] + (["--all_lower"] if lower else [])
        ofile = os.path.join(scratch.worker_root(), "prince_real_out.txt")

        def real(extra, hs):
            p = subprocess.run([sys.executable, "-W", "ignore", os.path.join(code, "prince_ling.py")] + base + extra,
                               stdin=subprocess.DEVNULL, stdout=subprocess.PIPE, stderr=subprocess.DEVNULL, timeout=300,
                               env=scratch.child_env(PYTHONUTF8="1", PYTHONHASHSEED=str(hs)))
            out["real_process_runs"] += 1
            out["hash_seeds_used"].append(hs)
            return p.stdout

        def bad(kind, detail):
            out["violations"].append({"seed": base_seed, "tape": list(t.rec), "violation": {
                "property": "C17", "kind": kind, "key": None, "detail": dict(detail, world=i, sample=repr(sample)[:300])},
                "case": None})
        full = real([], 1 + 977 * i)
        lines = full.split(b"\n")[:-1]
        total = len(lines)
        if total == 0 or total > 5000:
            continue
        again = real([], 20011 + i)
        if again != full:
            bad("unbounded_list_differs_between_processes", {"lines": total})
            continue
        real(["-o", ofile], 333 + i)
        try:
            ftext = open(ofile, "rb").read()
        except OSError:
            ftext = None
        if ftext != full:
            bad("file_differs_from_stdout_across_processes", {"lines": total})
            continue
        for k in range(4):
            n = 1 + t.draw(total)
            got = real(["--size", str(n)], 5000 + 31 * k + i)
            if got.split(b"\n")[:-1] != lines[:n]:
                bad("size_is_not_a_prefix_of_the_unbounded_list_across_processes", {"size": n, "total": total})
                break
    shutil.rmtree(os.path.join(code, "Rules"), ignore_errors=True)
    out["hash_seeds_used"] = len(set(out["hash_seeds_used"]))
    from .. import bigworld
    big = bigworld.prince_phase(tier, base_seed)
    out["violations"].extend(big.pop("violations", []))
    out.update(big)
    shutil.rmtree(os.path.join(code, "Rules"), ignore_errors=True)
    return out
