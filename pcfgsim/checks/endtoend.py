"""C03 and C13: parties that only meet on the disk.

C03  training list -> real trainer -> scratch disk -> real guesser (--skip_brute) run to
     exhaustion: every supported training password comes back, probabilities sum to 1.
C13  the same disk read by the real scorer (own loader, own multi-word detector, OMEN
     scorer) and by the real guesser (default flags): a non-zero score is found in the
     guesser's output with that probability; the scorer's answer does not depend on what
     it scored before (call history).
"""

import collections
import os

from .. import guesser, scratch, trainer
from ..runner import RunResult, digest_of

CONFIGS = {
    "C03": {
        "level": "exploration",
        "rule": "one run = training list (words, multi-words, digits, years, symbols, keyboard walks, context strings, spaces, "
                "Cyrillic/Greek/Latin-1, non-BMP, duplicates) x coverage x n-gram x alphabet size x encoding -> real trainer -> real "
                "loader with skip_brute -> real queue + expansion to exhaustion (<= 60000 guesses); oracle: every accepted training "
                "password whose structure has no E/W and whose letters have one-to-one case maps is in the emitted set; sum of "
                "probability x guesses == 1 +- 1e-9; large lists (300-2500 lines): each password followed through the ruleset (structure loaded, terminals and masks in loaded groups, real expansion of that one pre-terminal contains it); non-trivial = list with >= 3 distinct base structures or a multi-word; "
                "distinct = distinct (list, options)",
        "components": {"real": ["run_trainer", "savers", "grammar_io loader", "PcfgQueue", "create_guesses"], "stub": ["uuid", "stdout recorder"]},
        "assumptions": ["worlds on which the trainer itself fails (e.g. OMEN smoothing on degenerate lists) are outside 'training completes'"],
        "quick_budget_s": 30, "thorough_budget_s": 600, "chunk": 6,
    },
    "C13": {
        "level": "exploration",
        "rule": "one run = trained ruleset; candidates = training passwords, guesser output, case/digit/symbol perturbations, e-mail/URL "
                "strings, unrelated strings; real scorer vs real guesser (default flags, non-Markov pre-terminals expanded); oracle: "
                "p > 0 => string emitted with a probability within 1e-9 relative of p; detector fires => category e/w and p == 0; the "
                "candidates are scored again in another order after unrelated strings (call history) and must give identical tuples; "
                "non-trivial = >= 1 candidate with p > 0 that is not a training password; distinct = distinct (ruleset, candidates)",
        "components": {"real": ["lib_scorer.grammar_io", "PCFGPasswordScorer.parse/create_multiword_detector", "OmenScorer",
                                "guesser loader/queue/expansion", "trainer"], "stub": ["uuid", "stdout recorder"]},
        "assumptions": ["rulesets on which the default-flag guesser cannot start (Markov variable without entries) are counted, not judged"],
        "quick_budget_s": 30, "thorough_budget_s": 600, "chunk": 6,
    },
}


def warm():
    import lib_trainer.run_trainer    # noqa
    import lib_guesser.pcfg_grammar   # noqa
    import lib_guesser.priority_queue  # noqa
    import lib_scorer.pcfg_password_scorer  # noqa
    import lib_scorer.grammar_io      # noqa
    trainer.install()


class CannotStart(Exception):
    """the default-flag guesser cannot build its first queue (Markov variable without entries, D18)"""


def case_domain(pw):
    for c in pw:
        if c.isalpha():
            lo = c.lower()
            if len(lo) != 1 or len(lo.upper()) != 1 or c not in (lo, lo.upper()):
                return False
    return True


def unrebuildable(s):
    """contains a letter that is neither its own lower-case form nor that form's upper case (U+0130, U+01C5, ...):
    the guesser builds words from lower-case values and U/L masks only"""
    for c in s:
        if c.isalpha():
            lo = c.lower()
            if c != lo and c != lo.upper():
                return True
    return False


QUEUE_SIZE = [None]     # PcfgQueue.max_queue_size for this run (tuning knob, see session.draw_queue_knob)


def run_guesser(rdir, skip_brute, cap=60000, expand_m=False):
    """returns (map string -> list of probs, total probability mass, n guesses, error)"""
    from lib_guesser.priority_queue import PcfgQueue
    out = guesser.LineRecorder()
    strings = {}
    mass = 0.0
    n = 0
    with guesser.streams(out, guesser.Sink()):
        pcfg = guesser.load(rdir, skip_brute=skip_brute)
        try:
            q = PcfgQueue(pcfg)
        except IndexError:
            raise CannotStart()
        if QUEUE_SIZE[0]:
            q.max_queue_size = QUEUE_SIZE[0]
        while True:
            item = q.next()
            if item is None:
                break
            if not expand_m and any(x[0] == "M" for x in item["pt"]):
                continue
            out.take()
            k = pcfg.create_guesses(item["pt"])
            lines = guesser.split_lines(out.take())
            mass += item["prob"] * k
            n += k
            for s in lines:
                strings.setdefault(s, []).append(item["prob"])
            if n > cap:
                return strings, mass, n, "too_many_guesses"
    return strings, mass, n, None


def gen_world(t, need_small=True):
    enc = t.choice(["utf-8", "utf-8", "utf-8", "iso-8859-1", "cp1251", "cp1252", "cp437", "mac_roman"])
    flavour = {"encoding": enc, "nonascii": t.chance(1, 2) or enc in ("cp437", "mac_roman"), "nonbmp": enc == "utf-8" and t.chance(1, 6), "sites": t.chance(1, 3),
               "awkward": t.chance(1, 15), "zoo": enc == "utf-8" and t.chance(1, 4)}
    pws, opts = trainer.gen_list(t, flavour, max_lines=30)
    return pws, opts


def derivation_route(res, tr, opts):
    """large lists: the run cannot be enumerated, so each training password is followed through the ruleset instead --
    its base structure must be loaded, every terminal and mask must be in a loaded group, and the real expansion of
    exactly that pre-terminal must contain the password (that every pre-terminal is emitted is C02's subject)"""
    out = guesser.LineRecorder()
    with guesser.streams(out, guesser.Sink()):
        pcfg = guesser.load(tr.rule_dir, skip_brute=True)
    loaded = {tuple(b["replacements"]) for b in pcfg.base}
    index = {}
    for var, groups in pcfg.grammar.items():
        index[var] = {v: gi for gi, g in enumerate(groups) for v in g["values"]}
    done = set()
    structs = set()
    line_budget = [250000]
    for pw, sections in tr.cap.parses:
        if sections is None or pw in done:
            continue
        done.add(pw)
        labels = [l for _, l in sections]
        structs.add("".join(labels))
        if any(l[0] in "EW" for l in labels):
            res.stats["unsupported_structure_passwords"] += 1
            continue
        if not case_domain(pw):
            res.stats["outside_case_domain"] += 1
            continue
        pt = []
        reps = []
        why = None
        for text, label in sections:
            value = text.lower() if label[0] == "A" else text
            gi = index.get(label, {}).get(value)
            if gi is None:
                why = "terminal %r missing from %s" % (value, label)
                break
            pt.append((label, gi))
            reps.append(label)
            if label[0] == "A":
                mask = "".join("U" if c.isupper() else "L" for c in text)
                cl = "C" + label[1:]
                mi = index.get(cl, {}).get(mask)
                if mi is None:
                    why = "mask %r missing from %s" % (mask, cl)
                    break
                pt.append((cl, mi))
                reps.append(cl)
        if why is None and tuple(reps) not in loaded:
            why = "base structure %s not loaded" % "".join(labels)
        if why is None:
            size = 1
            for var, gi in pt:
                size *= len(pcfg.grammar[var][gi]["values"])
            if size > 40000 or line_budget[0] < size:
                # (flat lists: every value of a length is seen once, so one group holds them all and one pre-terminal
                # expands to their whole product; the structural part above has been checked)
                res.stats["expansion_not_generated(structure_checked_only)"] += 1
                res.stats["passwords_followed_through_the_ruleset"] += 1
                continue
            line_budget[0] -= size
            out.take()
            with guesser.streams(out, guesser.Sink()):
                pcfg.create_guesses([list(x) for x in pt])
            if pw not in guesser.split_lines(out.take()):
                why = "the expansion of its pre-terminal does not contain it"
        if why:
            res.violate("C03", "training_password_not_reproduced", {"password": pw, "structure": "".join(labels), "why": why,
                                                                    "route": "derivation (large list)", "encoding": opts["encoding"]})
            break
        res.stats["passwords_followed_through_the_ruleset"] += 1
    res.stats["large_lists"] += 1
    return structs


def run_c03(t, tier, res):
    large = t.chance(1, 30 if tier == "quick" else 8)
    pws, opts = gen_world(t)
    if large:
        enc = opts["encoding"]
        pws, o2 = trainer.gen_list(t, {"encoding": enc, "nonascii": t.chance(1, 2), "large": True, "zoo": enc == "utf-8" and t.chance(1, 4)})
        opts = dict(o2, coverage=opts["coverage"])
    if opts["coverage"] == 0.0:
        opts["coverage"] = 0.3
    scratch.fresh_disk()
    counted = (not large) and t.chance(1, 4)
    if counted:
        # the same list as a `uniq -c` style file trained with --prefixcount (repeated lines collapsed, some $HEX[])
        from . import formats
        usable = [p for p in pws if p and not formats.is_hex_literal(p) and p == p.strip("\r\n")
                  and not any(c in p for c in formats.FORBIDDEN)]
        data, _nh, _nj, _errs = formats.render(t, usable, opts["encoding"], "count", False)
        if usable and t.chance(1, 6) and " " not in usable[0] and usable[0] == usable[0].strip():
            # one entry seen so often that the list total is a round number: the once-seen values get probabilities such
            # as 8e-05 or 1e-05 (str(float) writes those without a decimal point)
            total = t.choice([12500, 25000, 50000, 100000])
            if t.chance(1, 2):
                # ... and so that one terminal list has exactly that total: digit strings of one length only (the base
                # structures of an ordinary list share the list total, a terminal list has its own)
                width = t.choice([2, 3, 4])
                k = t.between(3, 30)
                usable = t.sample(["%0*d" % (width, i) for i in range(10 ** width)], k)
                data = "".join("%d %s\n" % (total - (k - 1) if i == 0 else 1, d) for i, d in enumerate(usable)).encode("ascii")
                res.stats["count_prefixed_lists_with_round_terminal_total"] += 1
            else:
                data = ("%d %s\n" % (max(1, total - len(usable)), usable[0])).encode(opts["encoding"]) + data
                usable = [usable[0]] + usable
            res.stats["count_prefixed_lists_with_round_total"] += 1
        tr = trainer.train(None, dict(opts, prefixcount=True), raw=data)
        pws = usable
        res.stats["count_prefixed_lists"] += 1
    else:
        tr = trainer.train(pws, opts)
    res.sample = {"passwords": pws[:14], "n": len(pws), "opts": opts, "count_prefixed": counted}
    if not tr.ok:
        res.rejected = "trainer_failed"
        return
    if large:
        try:
            structs = derivation_route(res, tr, opts)
        except Exception:
            import traceback
            res.violate("C03", "guesser_raised", {"exception": traceback.format_exc()[-900:], "route": "derivation (large list)"})
            return
        res.nontrivial = digest_of([pws[:50], len(pws), opts]) if len(structs) >= 3 else None
        res.shape = (opts["encoding"], opts["coverage"], "large")
        res.digest = digest_of([sorted(structs), len(pws), [v.as_dict() for v in res.violations]])
        return
    try:
        strings, mass, n, err = run_guesser(tr.rule_dir, skip_brute=True)
    except Exception:
        import traceback
        res.violate("C03", "guesser_raised", {"exception": traceback.format_exc()[-900:]})
        return
    if err:
        res.rejected = err
        return
    structs = set()
    multi = False
    missing = []
    for pw, sections in tr.cap.parses:
        if sections is None:
            continue
        labels = [l for _, l in sections]
        structs.add("".join(labels))
        if any(a[0] == "A" and b[0] == "A" for a, b in zip(labels, labels[1:])):
            multi = True
        if any(l[0] in "EW" for l in labels):
            res.stats["unsupported_structure_passwords"] += 1
            continue
        if not case_domain(pw):
            res.stats["outside_case_domain"] += 1
            continue
        if pw not in strings:
            missing.append((pw, "".join(labels)))
    if counted and not missing:
        # the passwords are those of the list as written, not what the reader made of a line: every list entry (with a
        # non-blank character, free of e-mail/website structure, inside the case domain) must come out of the guesser
        seen = {pw: sections for pw, sections in tr.cap.parses}
        for p in pws:
            if not p.strip(" \u00a0\u3000") or not case_domain(p):
                continue
            sec = seen.get(p)
            if sec is not None and any(l[0] in "EW" for _, l in sec):
                continue
            if p not in strings and (sec is not None or p.strip() in seen or p.lstrip() in seen):
                missing.append((p, "(as written in the count-prefixed list; the trainer read %r)" % (
                    p if sec is not None else (p.lstrip() if p.lstrip() in seen else p.strip()))))
    if missing:
        res.violate("C03", "training_password_not_reproduced", {"password": missing[0][0], "structure": missing[0][1],
                                                                "missing": len(missing), "guesses": n, "encoding": opts["encoding"]})
    supported = any(s is not None and not any(l[0] in "EW" for _, l in s) for _, s in tr.cap.parses)
    if not supported:
        res.stats["no_supported_structure(vacuous)"] += 1
    elif abs(mass - 1.0) > 1e-9:
        res.violate("C03", "probabilities_do_not_sum_to_one", {"sum": mass, "guesses": n, "coverage": opts["coverage"]})
    res.stats["guesses"] += n
    res.nontrivial = digest_of([pws, opts]) if (len(structs) >= 3 or multi) else None
    res.shape = (opts["encoding"], opts["coverage"], len(structs))
    res.digest = digest_of([sorted(strings)[:200], n, round(mass, 12), [v.as_dict() for v in res.violations]])


def make_scorer(rdir, limit=0):
    from lib_scorer.grammar_io import load_grammar
    from lib_scorer.pcfg_password_scorer import PCFGPasswordScorer
    sc = PCFGPasswordScorer(limit=limit)
    if not load_grammar(sc, rdir):
        return None
    sc.create_multiword_detector()
    sc.create_omen_scorer(rdir, 9)
    return sc


def scorer_cli(rdir, enc, cands, first, limit):
    """password_scorer.main() with -i/-o on the scratch disk; returns None or (kind, detail)"""
    import sys
    import password_scorer
    wr = scratch.worker_root()
    scratch.point_tools_at(wr, ("password_scorer",))
    def writable(c):
        # (an upper-cased candidate may leave the code page: cp437 has U+00FA and no U+00DA)
        try:
            c.encode(enc, "surrogateescape")
            return True
        except UnicodeEncodeError:
            return False
    usable = [c for c in cands if c == c.strip("\r\n") and not (c.startswith("$HEX[") and c.endswith("]")) and writable(c)]
    inp = os.path.join(wr, "score_in.txt")
    outp = os.path.join(wr, "score_out.txt")
    with open(inp, "wb") as f:
        f.write("".join(c + "\n" for c in usable).encode(enc, "surrogateescape"))
    old = sys.argv
    sys.argv = ["password_scorer.py", "-r", os.path.basename(rdir), "-i", inp, "-o", outp, "-l", repr(limit), "-m", "9"]
    try:
        with guesser.streams():
            try:
                password_scorer.main()
            except SystemExit:
                pass
    except Exception:
        import traceback
        return ("scorer_cli_raised", {"exception": traceback.format_exc()[-700:]})
    finally:
        sys.argv = old
    try:
        text = open(outp, "rb").read().decode(enc, "surrogateescape")
    except OSError:
        return ("scorer_cli_wrote_no_output", {})
    rows = [l.split("\t") for l in text.split("\n") if l != ""]
    # the reader may legitimately skip candidates it considers invalid; every row written must match the library
    want = {c: first[c] for c in usable}
    seen = []
    for row in rows:
        if len(row) != 4:
            return ("scorer_cli_row_malformed", {"row": row[:6]})
        pw, cat, p, omen = row
        if pw not in want:
            return ("scorer_cli_scored_unknown_string", {"string": pw})
        w = want[pw]
        if cat != w[1] or float(p) != float(w[2]) or int(omen) != int(w[3]):
            return ("scorer_cli_differs_from_library", {"string": pw, "cli": row[1:], "library": repr(w[1:])})
        seen.append(pw)
    missing = [c for c in usable if c not in seen and not any(ord(ch) < 0x20 or ch in "\u2028\u2029\u0085" for ch in c)]
    if missing:
        return ("scorer_cli_skipped_candidate", {"string": missing[0], "rows": len(rows), "candidates": len(usable)})
    return None


def rescoring_after_edit(t, res, tr, cands, limit, opts):
    from . import tools
    args = ["-r", os.path.basename(tr.rule_dir), t.choice(["--max_length", "--min_length"]), str(t.between(3, 9))]
    _text, exc = tools.run_tool("edit_rules", args)
    if exc:
        return None                 # edit_rules is C20's subject
    res.faults["ruleset_edited_between_two_scorer_processes"] += 1
    try:
        strings, mass, n, err = run_guesser(tr.rule_dir, skip_brute=False)
    except Exception:
        return None                 # nothing left to guess from
    if err:
        return None
    with guesser.streams():
        try:
            sc = make_scorer(tr.rule_dir, limit)
        except Exception:
            import traceback
            return ("scorer_cannot_load", {"after": "edit_rules " + " ".join(args), "exception": traceback.format_exc()[-600:]})
        if sc is None:
            return None
        for s in cands:
            try:
                pw, cat, p, omen = sc.parse(s)
            except Exception:
                import traceback
                return ("scorer_raised", {"string": s, "after": "edit_rules " + " ".join(args), "exception": traceback.format_exc()[-600:]})
            if cat in ("e", "w") or not p or p <= 0:
                continue
            got = strings.get(s)
            if not got:
                if unrebuildable(s):
                    continue
                return ("scored_string_never_guessed", {"string": s, "probability": p, "category": cat,
                                                        "history": "scored, then edit_rules " + " ".join(args) + ", then scored by a new scorer"})
            if not any(abs(g - p) <= 1e-9 * max(abs(p), abs(g)) for g in got):
                return ("score_differs_from_guess_probability", {"string": s, "score": p, "guesser": got[:4],
                                                                 "history": "after edit_rules " + " ".join(args)})
    return None


def run_c13(t, tier, res):
    from lib_trainer.detection_rules.email_detection import email_detection
    from lib_trainer.detection_rules.keyboard_walk import detect_keyboard_walk
    from lib_trainer.detection_rules.website_detection import website_detection
    pws, opts = gen_world(t)
    scratch.fresh_disk()
    tr = trainer.train(pws, opts)
    res.sample = {"passwords": pws[:14], "n": len(pws), "opts": opts}
    if not tr.ok:
        res.rejected = "trainer_failed"
        return
    try:
        strings, mass, n, err = run_guesser(tr.rule_dir, skip_brute=False)
    except CannotStart:
        res.rejected = "default_guesser_cannot_start(M without entries)"
        return
    except Exception:
        import traceback
        res.violate("C13", "guesser_raised", {"exception": traceback.format_exc()[-900:]})
        return
    if err:
        res.rejected = err
        return
    with guesser.streams():
        try:
            limit = t.choice([0, 0, 1e-09, 1e-05, 0.01, 0.3])      # password_scorer.py --limit
            sc = make_scorer(tr.rule_dir, limit)
            res.stats["scorer_limit_%g" % limit] += 1
        except Exception:
            import traceback
            res.violate("C13", "scorer_cannot_load", {"exception": traceback.format_exc()[-700:], "encoding": opts["encoding"]})
            return
    if sc is None:
        res.violate("C13", "scorer_cannot_load", {"encoding": opts["encoding"]})
        return
    cands = list(dict.fromkeys(pws))
    gl = sorted(strings)
    for _ in range(min(25, len(gl))):
        cands.append(gl[t.draw(len(gl))])
    base = list(cands)
    for _ in range(30):
        s = base[t.draw(len(base))]
        k = t.draw(8)
        if k == 0:
            s = s.upper()
        elif k == 1:
            s = s.capitalize()
        elif k == 2:
            s = s.swapcase()
        elif k == 3:
            s = s + t.choice(["1", "12", "2019", "!", "#1", "<3"])
        elif k == 4:
            s = t.choice(["1", "!", "qwer", "1qaz"]) + s
        elif k == 5 and s:
            i = t.draw(len(s))
            s = s[:i] + t.choice(["0", "x", "$", "é"]) + s[i + 1:]
        elif k == 6:
            s = s + base[t.draw(len(base))]
        else:
            s = t.choice(["bob@gmail.com", "www.google.com", "zzzzqqqq", "correcthorse", "x@y.org99", "foo.com1"])
        if s and trainer.representable(s, opts["encoding"]) and len(s) <= 30:
            cands.append(s)
    cands = [c for c in dict.fromkeys(cands) if not any(ord(ch) < 0x20 for ch in c)]
    first = {}
    promised = 0
    with guesser.streams():
        for s in cands:
            try:
                r = sc.parse(s)
            except Exception:
                import traceback
                res.violate("C13", "scorer_raised", {"string": s, "exception": traceback.format_exc()[-600:]})
                return
            first[s] = r
            pw, cat, p, omen = r
            if pw != s:
                res.violate("C13", "scorer_returns_other_string", {"string": s, "returned": pw})
                return
            sl, _w, _k = detect_keyboard_walk(s)
            em, _ = email_detection(sl)
            ur, _, _ = website_detection(sl)
            if em or ur:
                if cat not in ("e", "w") or p != 0:
                    res.violate("C13", "email_or_website_not_classified", {"string": s, "category": cat, "probability": p})
                    return
                continue
            if p and p > 0:
                got = strings.get(s)
                if not got:
                    # letters that are neither their own lower-case form nor its upper-case form (U+0130, title-case
                    # digraphs such as U+01C5) cannot be rebuilt from a lower-case word and a U/L mask
                    key = "letter-outside-one-to-one-case-domain" if unrebuildable(s) else None
                    res.violate("C13", "scored_string_never_guessed", {"string": s, "probability": p, "category": cat}, key=key)
                    if key is None:
                        return
                    continue
                if not any(abs(g - p) <= 1e-9 * max(abs(p), abs(g)) for g in got):
                    res.violate("C13", "score_differs_from_guess_probability", {"string": s, "score": p, "guesser": got[:4]})
                    return
                if s not in pws:
                    promised += 1
        # call-history independence (also: the same scorer object refreshes its grammar from the unchanged ruleset)
        if t.chance(1, 3):
            from lib_scorer.grammar_io import load_grammar as _reload
            try:
                _reload(sc, tr.rule_dir)
                res.faults["scorer_object_loaded_the_ruleset_again"] += 1
            except Exception:
                pass
        order = t.shuffle(cands)
        for junk in ("zz##99", "PasswordPassword1", "йцукен", "a@b.com"):
            try:
                sc.parse(junk)
            except Exception:
                pass
        for s in order:
            r = sc.parse(s)
            if r != first[s]:
                res.violate("C13", "score_depends_on_call_history", {"string": s, "first": repr(first[s]), "later": repr(r)})
                return
    # the command-line tool over the same candidates (file in, file out) must report what the library call reported
    if not res.violations and t.chance(1, 3):
        prob = scorer_cli(tr.rule_dir, opts["encoding"], cands, first, limit)
        res.stats["scorer_cli_runs"] += 1
        if prob:
            res.violate("C13", prob[0], prob[1])
            return
    # the ruleset is edited in place (edit_rules keeps the uuid) and a new scorer process image scores the same candidates:
    # its promises are about the ruleset as it is now
    if not res.violations and t.chance(1, 3):
        prob = rescoring_after_edit(t, res, tr, cands, limit, opts)
        if prob:
            res.violate("C13", prob[0], prob[1])
            return
    res.stats["rescored_in_other_order"] += len(cands)
    res.stats["candidates"] += len(cands)
    res.stats["promises_checked"] += promised
    res.nontrivial = digest_of([pws, opts, cands]) if promised else None
    res.shape = (opts["encoding"], opts["coverage"])
    res.digest = digest_of([[repr(first[s]) for s in cands], [v.as_dict() for v in res.violations]])


def _draw_knobs(tape):
    from .. import session
    QUEUE_SIZE[0] = tape.choice(session.QUEUE_SIZES)


def run_one(tape, tier, prop):
    res = RunResult()
    _draw_knobs(tape)
    with guesser.streams():
        {"C03": run_c03, "C13": run_c13}[prop](tape, tier, res)
    return res


def extra_phase(tier, base_seed, prop="C13"):
    if prop != "C13":
        return {}
    from .. import bigworld
    return bigworld.scorer_phase(tier, base_seed)
