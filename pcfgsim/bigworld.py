"""The shipped rulesets (Rules/Default, Rules/Russian: ~1 M training passwords each, 11 000 - 37 000 base
structures, variables with thousands of probability groups) as realistic large worlds.

The synthetic worlds are small so that the whole language can be enumerated; here only a *prefix* of the run is
looked at, and the reference is a thresholded enumeration: every derivation whose probability lies above the
probability of the last pre-terminal popped.  That set is computed by RefRuleset (independent reader, LF/TAB split,
float()) with a depth-first walk that prunes on the running product -- sound because every factor is <= 1 and
the probability lists are non-increasing (checked on load; a list that is not makes the run void, not wrong).

Used by C01 / C02 (prefix order, probability == product, exactly-once and nothing skipped above the threshold),
C08 (quit / --load cycles with only the .sav file surviving) and C09 (--limit N).  Expansion into guesses is
stubbed in the C08 histories (a Default pre-terminal expands to up to millions of guesses; the property is about
pre-terminals), everything else is the real code.
"""

import collections
import os
import sys

from . import guesser, scratch, session
from .refmodel import RefRuleset, ulps_close

SHIPPED = ("Default", "Russian")


def shipped_dir(name):
    return os.path.join(scratch.REPO, "Rules", name)


def tool_dir(name):
    """the copy of a shipped ruleset that REPOSITORY code is pointed at (loaders, guesser, scorer, real processes): a change
    to the repository may write into a ruleset directory, and nothing may ever be written under /repo.  The reference
    readers (my own code, read-only) use shipped_dir() directly.  The copy (19 + 23 MB on tmpfs) is made once, by the
    parent process, before the jobs of a phase are forked."""
    import shutil
    root = os.path.dirname(scratch.code_dir())
    dst = os.path.join(root, "shipped", name)
    if not os.path.isdir(dst):
        tmp = dst + ".tmp%d" % os.getpid()
        os.makedirs(os.path.dirname(dst), exist_ok=True)
        shutil.copytree(shipped_dir(name), tmp)
        try:
            os.rename(tmp, dst)
        except OSError:
            shutil.rmtree(tmp, ignore_errors=True)
    return dst


def available():
    return [n for n in SHIPPED if os.path.isfile(os.path.join(shipped_dir(n), "config.ini"))]


_REF = {}


def ref_for(name, skip_brute=False, skip_case=False, folder="Grammar"):
    k = (name, skip_brute, skip_case, folder)
    if k not in _REF:
        ref = RefRuleset(shipped_dir(name), skip_brute=skip_brute, skip_case=skip_case, folder=folder)
        ref.monotone = all(gs[i]["prob"] >= gs[i + 1]["prob"] for gs in ref.vars.values() for i in range(len(gs) - 1))
        ref.dup_base = len({(tuple(b["replacements"]), b["prob"]) for b in ref.base}) != len(ref.base)
        _REF[k] = ref
    return _REF[k]


class TooMany(Exception):
    pass


def ref_top(ref, thr, cap=None):
    """{(names, idx): probability} for every derivation whose product (base first, then left to right, in doubles --
    the order the property states) is >= thr; raises TooMany beyond cap derivations"""
    out = {}
    sys.setrecursionlimit(max(sys.getrecursionlimit(), 5000))
    for b in ref.base:
        reps = b["replacements"]
        if b["prob"] < thr:
            continue
        groups = [ref.vars.get(r, []) for r in reps]
        n = len(reps)
        names = tuple(reps)
        idx = [0] * n

        def rec(pos, p):
            if pos == n:
                out[(names, tuple(idx))] = p
                if cap is not None and len(out) > cap:
                    raise TooMany()
                return
            for i, g in enumerate(groups[pos]):
                q = p * g["prob"]
                if q < thr:
                    break
                idx[pos] = i
                rec(pos + 1, q)
        rec(0, b["prob"])
    return out


def key_of_pt(pt):
    return (tuple(x[0] for x in pt), tuple(x[1] for x in pt))


def judge_prefix(ref, pops, slack=1e-12):
    """pops: [(pt, prob, base_prob)] in pop order, a prefix of a run.  Returns (kind, detail) or None.
    C01: non-increasing, probability == product; C02: nothing twice, nothing above the last probability skipped."""
    if not pops:
        return None
    prev = None
    for i, (pt, p, bp) in enumerate(pops):
        if prev is not None and p > prev:
            return ("C01", "order", {"pop": i, "prob": p, "previous": prev, "pt": repr(pt)[:200]})
        prev = p
    seen = set()
    last = pops[-1][1]
    try:
        # a sound cap: the tool popped len(pops) derivations; if the reference holds far more than that at or above the
        # last probability (exact ties at the last probability included, hence the generous factor), some were skipped
        top = ref_top(ref, last * (1 - 1e-9), cap=20 * len(pops) + 200000)
    except TooMany:
        return ("C02", "skipped_above_last_probability", {"count": "more than %d" % (20 * len(pops) + 200000),
                                                          "last_probability": last, "pops": len(pops)})
    for i, (pt, p, bp) in enumerate(pops):
        k = key_of_pt(pt)
        if k in seen:
            return ("C02", "repeated", {"pop": i, "pt": repr(pt)[:200], "prob": p})
        seen.add(k)
        want = top.get(k)
        if want is None:
            return ("C01", "probability_not_product", {"pop": i, "pt": repr(pt)[:200], "tool": p,
                                                       "reference": "not among the derivations at or above the last probability"})
        if not ulps_close(p, want, len(pt) + 2):
            return ("C01", "probability_not_product", {"pop": i, "pt": repr(pt)[:200], "tool": p, "reference": want})
    missing = [(k, q) for k, q in top.items() if q > last * (1 + slack) and k not in seen]
    if missing:
        missing.sort(key=lambda kv: -kv[1])
        return ("C02", "skipped_above_last_probability", {"count": len(missing), "last_probability": last,
                                                          "first": repr(missing[0])[:300], "pops": len(pops)})
    return None


def pop_prefix(name, n, skip_brute=False, skip_case=False):
    """the first n pops of the real queue on a shipped ruleset (no expansion)"""
    with guesser.streams():
        pcfg = guesser.load(tool_dir(name), skip_brute, skip_case, name=name)
        hist = guesser.exhaust(pcfg, max_pops=n, expand=False)
    return [(h["pt"], h["prob"], h["base_prob"]) for h in hist if not h.get("overflow")]


# ---------------------------------------------------------------------------
# quit / --load histories through pcfg_guesser.main()

def link_ruleset(name):
    wr = scratch.worker_root()
    os.makedirs(os.path.join(wr, "Rules"), exist_ok=True)
    dst = os.path.join(wr, "Rules", name)
    if not os.path.islink(dst) and not os.path.exists(dst):
        os.symlink(tool_dir(name), dst)
    return wr


def run_cycle(name, flags, load, k, session_name="BIG", restore_limit=None):
    """one process image that quits when its k-th pop is noticed (k-1 pre-terminals expanded)"""
    argv = ["-r", name, "-s", session_name]
    if load:
        argv.append("--load")
    if flags.get("skip_brute"):
        argv.append("--skip_brute")
    if flags.get("skip_case"):
        argv.append("--all_lower")
    ctx = session.SessionCtx(trigger=("pop", k), knobs={"stub_expansion": True, "restore_work_limit": restore_limit})
    r = session.run_main(argv, ctx)
    r.emitted = session.emitted_preterminals(ctx)
    return r


def resume_history(name, flags, cuts):
    """cuts: pops per cycle.  Returns (problem or None, stats).  Oracle (RefResume on a prefix): every cycle is
    non-increasing and starts at or below the probability saved by the previous one; a pre-terminal is repeated only at
    exactly a saved probability; after the last cycle nothing above the last saved probability is missing; every
    emitted pre-terminal is a derivation of the ruleset with its product probability."""
    wr = link_ruleset(name)
    for fn in os.listdir(wr):
        if fn.endswith(".sav") or fn.endswith(".omn"):
            os.unlink(os.path.join(wr, fn))
    ref = ref_for(name, flags.get("skip_brute", False), flags.get("skip_case", False))
    stats = collections.Counter()
    emitted = collections.Counter()
    probs = {}
    saved = []
    done = 0
    for c, k in enumerate(cuts):
        # bounded liveness of the restore: a correct walk visits the derivations above the saved probability and their
        # children once each (measured: < 3 visits per pre-terminal already emitted, plus one per base structure);
        # the bound is 40 times that
        limit = 40 * (3 * done + len(ref.base) + 1000)
        r = run_cycle(name, flags, c > 0, k, restore_limit=limit)
        stats["restore_node_visits"] += r.ctx.restore_calls
        stats["restore_node_visits_max_ratio_x1000"] = max(stats["restore_node_visits_max_ratio_x1000"],
                                                           int(1000 * r.ctx.restore_calls / (3 * done + len(ref.base) + 1000)))
        done += max(0, k - 1)
        if r.exc:
            kind = "restore_does_not_finish_within_bound" if "RestoreWorkLimit" in r.exc else "raised"
            return (kind, {"cycle": c, "exception": r.exc[-1200:], "bound_node_visits": limit}), stats
        if not r.ctx.fired:
            return ("run_ended_before_the_cut", {"cycle": c, "pops": len(r.ctx.pops)}), stats
        try:
            sp = float(session.read_sav(os.path.join(wr, "BIG.sav"))["guessing_info"]["max_probability"])
        except Exception as e:
            return ("save_file_unusable", {"cycle": c, "error": repr(e)}), stats
        popped = [p for p in r.ctx.pops if p is not None]
        if popped[-1]["prob"] != sp:
            return ("saved_probability_not_last_pop", {"cycle": c, "saved": sp, "popped": popped[-1]["prob"]}), stats
        prev = None
        for i, e in enumerate(r.emitted):
            if prev is not None and e["prob"] > prev:
                return ("resumed_order", {"cycle": c, "index": i, "prob": e["prob"], "previous": prev}), stats
            prev = e["prob"]
            if saved and e["prob"] > saved[-1]:
                return ("above_saved_probability", {"cycle": c, "index": i, "prob": e["prob"], "saved": saved[-1],
                                                    "pt": repr(e["pt"])[:200]}), stats
            kk = key_of_pt(e["pt"])
            if emitted[kk]:
                if e["prob"] not in saved:
                    return ("repeat_below_saved_probability", {"cycle": c, "index": i, "pt": repr(e["pt"])[:200], "prob": e["prob"],
                                                               "saved": saved[-3:]}), stats
                stats["legit_tie_repeats"] += 1
            emitted[kk] += 1
            probs[kk] = e["prob"]
        saved.append(sp)
        stats["cycles"] += 1
        stats["preterminals"] += len(r.emitted)
    last = saved[-1]
    try:
        top = ref_top(ref, last * (1 - 1e-9), cap=20 * sum(cuts) + 200000)
    except TooMany:
        return ("lost_above_saved_probability", {"count": "more than %d" % (20 * sum(cuts) + 200000), "saved": last,
                                                 "cuts": list(cuts)}), stats
    for kk, p in probs.items():
        want = top.get(kk)
        if want is None or not ulps_close(p, want, len(kk[0]) + 2):
            return ("foreign_preterminal", {"pt": repr(kk)[:200], "tool": p, "reference": want}), stats
    missing = [(kk, q) for kk, q in top.items() if q > last * (1 + 1e-12) and not emitted[kk]]
    if missing:
        missing.sort(key=lambda kv: -kv[1])
        return ("lost_above_saved_probability", {"count": len(missing), "saved": last, "first": repr(missing[0])[:300],
                                                 "cuts": list(cuts)}), stats
    stats["reference_derivations_above_cut"] += len(top)
    return None, stats


# ---------------------------------------------------------------------------
# phases run by the checks (after their seeded runs), fanned out over forked workers

FLAG_SETS = [{}, {"skip_brute": True}, {"skip_case": True}, {"skip_brute": True, "skip_case": True}]


def _guarded(fn, *a):
    # a broken tree may build an unbounded queue on a ruleset of this size: the job dies with MemoryError (reported as
    # 'raised') instead of taking the machine down
    import resource
    try:
        resource.setrlimit(resource.RLIMIT_AS, (6 << 30, 6 << 30))
    except (ValueError, OSError):
        pass
    return fn(*a)


def _fan_out(fn, jobs, workers=8, timeout=1500):
    import concurrent.futures as cf
    import multiprocessing as mp
    jobs = [(fn,) + tuple(j) for j in jobs]
    fn = _guarded
    for n in available():
        tool_dir(n)
    with cf.ProcessPoolExecutor(max_workers=max(1, min(workers, len(jobs))), mp_context=mp.get_context("fork")) as ex:
        futs = [ex.submit(fn, *j) for j in jobs]
        return [f.result(timeout=timeout) for f in futs]


def _prefix_job(name, flags, n):
    pops = pop_prefix(name, n, flags.get("skip_brute", False), flags.get("skip_case", False))
    ref = ref_for(name, flags.get("skip_brute", False), flags.get("skip_case", False))
    if not ref.monotone:
        return {"void": "probability list not non-increasing in " + name, "pops": len(pops)}
    problem = judge_prefix(ref, pops)
    ties = len(pops) - len({p for _, p, _ in pops})
    return {"problem": problem, "pops": len(pops), "ties": ties, "name": name, "flags": flags,
            "last_probability": pops[-1][1] if pops else None}


def prefix_phase(prop, tier, base_seed):
    """C01 / C02 on the shipped rulesets"""
    names = available()
    out = {"shipped_ruleset_prefix_runs": 0, "shipped_ruleset_pops": 0, "shipped_rulesets": names, "violations": []}
    if not names:
        return out
    if tier == "quick":
        jobs = [(names[base_seed % len(names)], FLAG_SETS[(base_seed // 2) % 4], 20000)]
    else:
        jobs = [(nm, fl, 400000 if not fl else 150000) for nm in names for fl in FLAG_SETS]
    for r in _fan_out(_prefix_job, jobs):
        if r.get("void"):
            out.setdefault("void", []).append(r["void"])
            continue
        out["shipped_ruleset_prefix_runs"] += 1
        out["shipped_ruleset_pops"] += r["pops"]
        out["shipped_ruleset_exact_ties"] = out.get("shipped_ruleset_exact_ties", 0) + r["ties"]
        pb = r["problem"]
        if pb and pb[0] == prop:
            out["violations"].append({"seed": base_seed, "tape": [], "violation": {
                "property": prop, "kind": "shipped_ruleset:" + pb[1], "key": None,
                "detail": dict(pb[2], ruleset=r["name"], flags=r["flags"], pops=r["pops"])}, "case": None})
    return out


def _resume_job(name, flags, cuts, aim_tie=False):
    if aim_tie:
        # move the first cut into a group of exactly equal probabilities: the k-th pop (whose probability is saved) is
        # then a later member of a tie whose earlier members were already emitted
        pops = pop_prefix(name, cuts[0] + 4000, flags.get("skip_brute", False), flags.get("skip_case", False))
        for i in range(max(0, cuts[0] - 1), len(pops) - 1):
            if pops[i][1] == pops[i + 1][1]:
                cuts = [i + 2] + list(cuts[1:])
                break
    problem, stats = resume_history(name, flags, cuts)
    return {"problem": problem, "stats": dict(stats), "name": name, "flags": flags, "cuts": cuts}


def resume_phase(tier, base_seed):
    """C08 on the shipped rulesets: quit / --load histories, cut points drawn from the seed"""
    from .tape import Tape
    names = available()
    out = {"shipped_ruleset_histories": 0, "shipped_ruleset_cycles": 0, "shipped_ruleset_preterminals": 0,
           "shipped_rulesets": names, "violations": []}
    if not names:
        return out
    t = Tape(seed=base_seed * 4099 + 17)
    jobs = []
    nh = 2 if tier == "quick" else 16
    for h in range(nh):
        name = names[(base_seed + h) % len(names)]
        flags = FLAG_SETS[t.draw(4)] if t.chance(1, 3) else {}
        ncyc = t.between(2, 3 if tier == "quick" else 5)
        hi = 4000 if tier == "quick" else 60000
        cuts = []
        for _ in range(ncyc):
            style = t.draw(4)
            cuts.append(1 if style == 0 else t.between(2, 40) if style == 1 else t.between(2, hi))
        jobs.append((name, flags, cuts, h % 2 == 0))
    for r in _fan_out(_resume_job, jobs):
        out["shipped_ruleset_histories"] += 1
        out["shipped_ruleset_cycles"] += r["stats"].get("cycles", 0)
        out["shipped_ruleset_preterminals"] += r["stats"].get("preterminals", 0)
        out["shipped_ruleset_legit_tie_repeats"] = out.get("shipped_ruleset_legit_tie_repeats", 0) + r["stats"].get("legit_tie_repeats", 0)
        if r["problem"]:
            out["violations"].append({"seed": base_seed, "tape": list(t.rec), "violation": {
                "property": "C08", "kind": "shipped_ruleset:" + r["problem"][0], "key": None,
                "detail": dict(r["problem"][1], ruleset=r["name"], flags=r["flags"], cuts=r["cuts"])}, "case": None})
    return out


def _limit_job(name, flags, n, m, aim=None):
    """--limit n against --limit m (n < m) through pcfg_guesser.main(): exactly n lines, the first n of the longer run,
    nothing on stdout that was not handed to print_guess.  aim (a fraction): n is moved inside the first Markov level
    of the longer run"""
    wr = link_ruleset(name)
    out = {"name": name, "flags": flags, "n": n, "m": m, "problem": None, "markov_guesses": 0}
    runs = {}
    for which in ("m", "n"):
        lim = m if which == "m" else n
        for fn in os.listdir(wr):
            if fn.endswith(".sav") or fn.endswith(".omn"):
                os.unlink(os.path.join(wr, fn))
        argv = ["-r", name, "-s", "BIGL", "--limit", str(lim)]
        if flags.get("skip_brute"):
            argv.append("--skip_brute")
        if flags.get("skip_case"):
            argv.append("--all_lower")
        ctx = session.SessionCtx()
        r = session.run_main(argv, ctx)
        if r.exc:
            out["problem"] = ("raised", {"limit": lim, "exception": r.exc[-1200:]})
            return out
        if r.lines != ctx.guesses:
            out["problem"] = ("stdout_not_guess_stream", {"limit": lim, "stdout_lines": len(r.lines), "guesses": len(ctx.guesses)})
            return out
        if len(r.lines) != lim:
            out["problem"] = ("limit_not_exact", {"limit": lim, "written": len(r.lines)})
            return out
        runs[lim] = r.lines
        E = session.emitted_preterminals(ctx)
        if which == "m" and aim is not None:
            ends = [e["first_line"] for e in E[1:]] + [len(r.lines)]
            for e, end in zip(E, ends):
                if len(e["pt"]) == 1 and e["pt"][0][0] == "M" and end - e["first_line"] >= 3 and end < m:
                    n = e["first_line"] + 1 + int(aim * (end - e["first_line"] - 2))
                    out["n"] = n
                    break
        if which == "n":
            if E and len(E[-1]["pt"]) == 1 and E[-1]["pt"][0][0] == "M":
                out["limit_inside_markov_level"] = True
    if runs[n] != runs[m][:n]:
        k = next(i for i, (a, b) in enumerate(zip(runs[n], runs[m])) if a != b)
        out["problem"] = ("limit_not_exact", {"limit": n, "longer_limit": m, "first_difference_at_line": k})
    return out


def limit_phase(tier, base_seed):
    """C09 on the shipped rulesets"""
    from .tape import Tape
    names = available()
    out = {"shipped_ruleset_limit_pairs": 0, "shipped_ruleset_lines": 0, "shipped_rulesets": names, "violations": []}
    if not names:
        return out
    t = Tape(seed=base_seed * 5147 + 29)
    jobs = []
    for h in range(1 if tier == "quick" else 8):
        name = names[(base_seed + h) % len(names)]
        flags = FLAG_SETS[t.draw(4)] if t.chance(1, 3) else {}
        n = t.between(1, 3000) if t.chance(1, 2) else t.between(1, 120000)
        m = n + t.between(1, 30000)
        aim = None
        if t.chance(1, 2) or (tier == "quick" and base_seed % 2 == 0):
            # (Rules/Russian has an empty CP.level in this tree: its Markov levels hold no strings)
            name, flags, aim = "Default", {k: v for k, v in flags.items() if k != "skip_brute"}, t.draw(1000) / 1000.0
            m = max(m, 3000)
        jobs.append((name, flags, n, m, aim))
    for r in _fan_out(_limit_job, jobs):
        out["shipped_ruleset_limit_pairs"] += 1
        out["shipped_ruleset_lines"] += r["n"] + r["m"]
        out["shipped_ruleset_limits_inside_markov_level"] = out.get("shipped_ruleset_limits_inside_markov_level", 0) + (
            1 if r.get("limit_inside_markov_level") else 0)
        if r["problem"]:
            out["violations"].append({"seed": base_seed, "tape": list(t.rec), "violation": {
                "property": "C09", "kind": "shipped_ruleset:" + r["problem"][0], "key": None,
                "detail": dict(r["problem"][1], ruleset=r["name"], flags=r["flags"])}, "case": None})
    return out


# ---------------------------------------------------------------------------
# PRINCE-LING on the shipped rulesets

def _prince_job(name, lower, n, m, hash_seed, n_file=None):
    """prince_ling.main() --size m in-process (pops recorded: order, product, nothing skipped, expansion order as written)
    and the real prince_ling.py --size n (n < m) in a fresh interpreter under another string-hash seed: a prefix"""
    import subprocess
    from .checks import tools
    out = {"name": name, "lower": lower, "n": n, "m": m, "problem": None, "pops": 0}
    wr = link_ruleset(name)
    code = scratch.code_dir()
    os.makedirs(os.path.join(code, "Rules"), exist_ok=True)
    lnk = os.path.join(code, "Rules", name)
    if not os.path.islink(lnk) and not os.path.exists(lnk):
        try:
            os.symlink(tool_dir(name), lnk)
        except FileExistsError:
            pass
    base = ["-r", name] + (["--all_lower"] if lower else [])
    ctx = session.SessionCtx()
    text, exc = tools.run_tool("prince_ling", base + ["--size", str(m)], ctx)
    if exc:
        out["problem"] = ("raised", {"exception": exc[-1200:]})
        return out
    lines = guesser.split_lines(text)
    if len(lines) != m:
        out["problem"] = ("size_not_honoured", {"size": m, "written": len(lines)})
        return out
    ref = ref_for(name, skip_case=lower, folder="Prince")
    pops = [(tuple(tuple(x) for x in p["pt"]), p["prob"], p["base_prob"]) for p in ctx.pops if p is not None]
    out["pops"] = len(pops)
    pb = judge_prefix(ref, pops)
    if pb:
        out["problem"] = ({"order": "not_most_probable_first", "repeated": "word_group_repeated",
                           "skipped_above_last_probability": "word_group_skipped"}.get(pb[1], pb[1]), pb[2])
        return out
    # the words themselves: each popped group is written as its expansion (the last one may be cut by --size)
    E = session.emitted_preterminals(ctx)
    ends = [e["first_line"] for e in E[1:]] + [len(ctx.guesses)]
    for i, (e, end) in enumerate(zip(E, ends)):
        block = collections.Counter(ctx.guesses[e["first_line"]:end])
        exp = collections.Counter(ref.expand(e["pt"]))
        if (block - exp) or (i < len(E) - 1 and block != exp):
            out["problem"] = ("words_differ_from_expansion", {"pt": repr(e["pt"]), "extra": sorted((block - exp).elements())[:5],
                                                              "missing": sorted((exp - block).elements())[:5]})
            return out
    if ctx.guesses != lines:
        out["problem"] = ("stdout_differs_from_words_generated", {"stdout": len(lines), "generated": len(ctx.guesses)})
        return out
    p = subprocess.run([sys.executable, "-W", "ignore", os.path.join(code, "prince_ling.py")] + base + ["--size", str(n)],
                       stdin=subprocess.DEVNULL, stdout=subprocess.PIPE, stderr=subprocess.DEVNULL, timeout=600,
                       env=scratch.child_env(PYTHONUTF8="1", PYTHONHASHSEED=str(hash_seed)))
    got = p.stdout.decode(ref.encoding, "surrogateescape").split("\n")[:-1]
    if got != lines[:n]:
        k = next((i for i, (a, b) in enumerate(zip(got, lines)) if a != b), min(len(got), n))
        out["problem"] = ("size_is_not_a_prefix_of_the_longer_list_across_processes",
                          {"size": n, "longer": m, "written": len(got), "first_difference_at_word": k, "hash_seed": hash_seed})
        return out
    if n_file:
        # the same list written to a file (tens of thousands of words: whatever batching the writer does is crossed)
        ofile = os.path.join(wr, "prince_big_out.txt")
        if os.path.exists(ofile):
            os.unlink(ofile)
        p = subprocess.run([sys.executable, "-W", "ignore", os.path.join(code, "prince_ling.py")] + base +
                           ["--size", str(n_file), "-o", ofile],
                           stdin=subprocess.DEVNULL, stdout=subprocess.PIPE, stderr=subprocess.DEVNULL, timeout=600,
                           env=scratch.child_env(PYTHONUTF8="1", PYTHONHASHSEED=str(hash_seed + 1)))
        try:
            ftext = open(ofile, "rb").read().decode(ref.encoding, "surrogateescape")
        except OSError:
            out["problem"] = ("output_file_missing", {"size": n_file})
            return out
        os.unlink(ofile)
        want = "".join(l + "\n" for l in lines[:n_file])
        if ftext != want:
            fl = ftext.split("\n")
            k = next((i for i, (a, b) in enumerate(zip(fl, lines)) if a != b), min(len(fl), n_file))
            out["problem"] = ("file_differs_from_stdout", {"size": n_file, "file_lines": ftext.count("\n"),
                                                           "first_difference_at_word": k, "file_has": fl[k:k + 1], "stdout_has": lines[k:k + 1]})
        out["file_words"] = n_file
    return out


def prince_phase(tier, base_seed):
    from .tape import Tape
    names = available()
    out = {"shipped_ruleset_prince_pairs": 0, "shipped_ruleset_prince_words": 0, "shipped_ruleset_prince_pops": 0,
           "shipped_rulesets": names, "violations": []}
    if not names:
        return out
    t = Tape(seed=base_seed * 6133 + 41)
    jobs = []
    for h in range(1 if tier == "quick" else 8):
        name = names[(base_seed + h) % len(names)]
        n = t.between(1, 2000) if t.chance(1, 2) else t.between(1, 60000)
        n_file = t.between(9000, 45000)
        m = max(n, n_file) + t.between(1, 20000)
        jobs.append((name, t.chance(1, 3), n, m, 1 + t.draw(50000), n_file))
    for r in _fan_out(_prince_job, jobs):
        out["shipped_ruleset_prince_pairs"] += 1
        out["shipped_ruleset_prince_words"] += r["n"] + r["m"]
        out["shipped_ruleset_prince_pops"] += r["pops"]
        out["shipped_ruleset_prince_words_to_file"] = out.get("shipped_ruleset_prince_words_to_file", 0) + r.get("file_words", 0)
        if r["problem"]:
            out["violations"].append({"seed": base_seed, "tape": list(t.rec), "violation": {
                "property": "C17", "kind": "shipped_ruleset:" + r["problem"][0], "key": None,
                "detail": dict(r["problem"][1], ruleset=r["name"], all_lower=r["lower"], size=r["n"], longer=r["m"])},
                "case": None})
    return out


# ---------------------------------------------------------------------------
# C15 on a shipped ruleset: quit inside a Markov level of the real trained OMEN model

_REFOMEN = {}


def _omen_strings(name, level):
    from .refmodel import RefOmen
    k = (name, level)
    if k not in _REFOMEN:
        ro = RefOmen(os.path.join(shipped_dir(name), "Omen"))
        _REFOMEN[k] = ro.strings(level, cap=300000)
    return _REFOMEN[k]


def omen_history(name, m, j_frac, style, k_tail):
    """A: quit right after the j-th guess of the m-th Markov pre-terminal; B: --load (style 'remainder': quit again inside
    the restored remainder, then B2: --load); then C: --load once more after a quit at a pop -- must not replay.
    Non-Markov pre-terminals are not expanded (stub).  Returns (problem, stats)."""
    wr = link_ruleset(name)
    for fn in os.listdir(wr):
        if fn.endswith(".sav") or fn.endswith(".omn"):
            os.unlink(os.path.join(wr, fn))
    stats = collections.Counter()
    ref = ref_for(name)
    groups = ref.vars["M"]
    if m > len(groups) or len(groups[m - 1]["values"]) != 1:
        return ("void", {"reason": "no single-level Markov group %d" % m}), stats
    level = int(groups[m - 1]["values"][0])
    want = collections.Counter(_omen_strings(name, level))
    n = sum(want.values())
    if n < 2:
        return ("void", {"reason": "level %d of %s has %d strings" % (level, name, n)}), stats
    j = 1 + int(j_frac * (n - 1))
    knobs = {"stub_expansion": "non_markov", "guess_cap": 3 * n + 400000, "restore_work_limit": 4000000}
    argv = ["-r", name, "-s", "BIGM"]

    def cycle(load, trigger):
        ctx = session.SessionCtx(trigger=trigger, knobs=dict(knobs))
        r = session.run_main(argv + (["--load"] if load else []), ctx)
        r.emitted = session.emitted_preterminals(ctx)
        r.remainder = []
        for call in ctx.restore_omen_calls:
            r.remainder.extend(ctx.guesses[call[1]:call[2] if call[2] is not None else ctx.nlines])
        stats["cycles"] += 1
        return r

    def broken(r, c):
        if r.exc:
            if "GuessCap" in r.exc:
                return ("void", {"reason": "scripted quit point not reached", "cycle": c})
            return ("raised", {"cycle": c, "exception": r.exc[-1200:]})
        if r.lines != r.ctx.guesses:
            return ("guess_generated_but_not_written", {"cycle": c, "stdout": len(r.lines), "generated": len(r.ctx.guesses)})
        return None

    rA = cycle(False, ("omen", m, j))
    pb = broken(rA, "A")
    if pb:
        return pb, stats
    if not rA.ctx.fired or rA.ctx.fired_in != "omen" or not rA.emitted:
        return ("void", {"reason": "quit did not land inside the level", "fired": rA.ctx.fired}), stats
    e = rA.emitted[-1]
    linesA = rA.ctx.guesses[e["first_line"]:]
    gotA = collections.Counter(linesA)
    if gotA - want:
        return ("omen_level_wrong_strings", {"cycle": "A", "extra": sorted((gotA - want).elements())[:5], "level": level}), stats
    owed = want - gotA
    stats["quit_strictly_inside_level"] += 1 if 0 < len(linesA) < n else 0
    stats["strings_before_quit"] += len(linesA)
    # B (and B2): the remainder
    trig = ("remainder", 1 + int(0.37 * max(0, sum(owed.values()) - 1))) if style == "remainder" and sum(owed.values()) >= 2 \
        else ("pop", k_tail)
    rB = cycle(True, trig)
    pb = broken(rB, "B")
    if pb:
        return pb, stats
    gotB = collections.Counter(rB.remainder)
    if gotB - owed:
        return ("omen_remainder_repeats_or_foreign", {"cycle": "B", "extra": sorted((gotB - owed).elements())[:5]}), stats
    if trig[0] == "remainder":
        if not (rB.ctx.fired and rB.ctx.fired_in == "remainder"):
            return ("void", {"reason": "second quit did not land inside the remainder"}), stats
        stats["quit_inside_restored_remainder"] += 1
        owed = owed - gotB
        rB2 = cycle(True, ("pop", k_tail))
        pb = broken(rB2, "B2")
        if pb:
            return pb, stats
        gotB2 = collections.Counter(rB2.remainder)
        if gotB2 - owed:
            return ("omen_remainder_repeats_or_foreign", {"cycle": "B2", "extra": sorted((gotB2 - owed).elements())[:5]}), stats
        owed = owed - gotB2
        last = rB2
    else:
        owed = owed - gotB
        last = rB
    if owed:
        return ("omen_remainder_skipped", {"missing": sorted(owed.elements())[:5], "count": sum(owed.values()), "level": level,
                                           "quit_after": j}), stats
    stats["remainder_strings"] += sum(gotB.values())
    if not last.ctx.fired:
        return ("void", {"reason": "tail quit not reached"}), stats
    # the pre-terminals after the remainder continue below the saved probability, Markov group m not again
    for ee in last.emitted:
        if ee["pt"] == e["pt"]:
            return ("markov_level_started_again_after_its_remainder", {"pt": repr(ee["pt"])}), stats
    # C: one more cycle must not replay the remainder
    rC = cycle(True, ("pop", 3))
    pb = broken(rC, "C")
    if pb:
        return pb, stats
    if rC.remainder or rC.ctx.restore_omen_calls:
        return ("stale_omen_replay", {"lines_replayed": len(rC.remainder), "first": rC.remainder[:3]}), stats
    return None, stats


def _omen_job(name, m, j_frac, style, k_tail):
    problem, stats = omen_history(name, m, j_frac, style, k_tail)
    return {"problem": problem, "stats": dict(stats), "name": name, "m": m, "j_frac": j_frac, "style": style}


def omen_phase(tier, base_seed):
    """C15 on the shipped Default ruleset (Rules/Russian has an empty CP.level in this tree: its Markov levels are empty)"""
    from .tape import Tape
    out = {"shipped_ruleset_markov_histories": 0, "shipped_ruleset_markov_cycles": 0, "shipped_ruleset_void": 0, "violations": []}
    if "Default" not in available():
        return out
    t = Tape(seed=base_seed * 7283 + 53)
    jobs = []
    for h in range(1 if tier == "quick" else 12):
        m = 1 if (tier == "quick" or t.chance(2, 3)) else 2
        style = t.draw(5)
        j_frac = 0.0 if style == 0 else 1.0 if style == 1 else t.draw(1000) / 1000.0
        jobs.append(("Default", m, j_frac, "remainder" if t.chance(1, 2) else "pop", t.between(1, 60)))
    for r in _fan_out(_omen_job, jobs):
        out["shipped_ruleset_markov_cycles"] += r["stats"].get("cycles", 0)
        for k in ("quit_strictly_inside_level", "quit_inside_restored_remainder", "remainder_strings"):
            out["shipped_ruleset_" + k] = out.get("shipped_ruleset_" + k, 0) + r["stats"].get(k, 0)
        if r["problem"] and r["problem"][0] == "void":
            out["shipped_ruleset_void"] += 1
            continue
        out["shipped_ruleset_markov_histories"] += 1
        if r["problem"]:
            out["violations"].append({"seed": base_seed, "tape": list(t.rec), "violation": {
                "property": "C15", "kind": "shipped_ruleset:" + r["problem"][0], "key": None,
                "detail": dict(r["problem"][1], ruleset=r["name"], markov_group=r["m"], quit_fraction=r["j_frac"], style=r["style"])},
                "case": None})
    return out


# ---------------------------------------------------------------------------
# C13 on the shipped rulesets: the scorer's promises against a prefix of the guesser's run

def _scorer_job(name, n_pops, seed):
    """real guesser (default flags, Markov pre-terminals not expanded) for n_pops pops -> emitted strings with their
    probabilities and the last probability p_last; real scorer over a sample of those strings and mutations of them.
    A candidate scored above p_last must already have been emitted, with that probability (below p_last: undecided)."""
    from .tape import Tape
    from .checks import endtoend
    from lib_guesser.priority_queue import PcfgQueue
    t = Tape(seed=seed)
    out = {"name": name, "problem": None, "candidates": 0, "decided": 0, "promises_beyond_emitted_sample": 0, "undecided": 0}
    rec = guesser.LineRecorder()
    strings = {}
    with guesser.streams(rec, guesser.Sink()):
        pcfg = guesser.load(tool_dir(name), name=name)
        q = PcfgQueue(pcfg)
        last = None
        for _ in range(n_pops):
            item = q.next()
            if item is None:
                break
            last = item["prob"]
            if any(x[0] == "M" for x in item["pt"]):
                continue
            rec.take()
            pcfg.create_guesses(item["pt"])
            for s in guesser.split_lines(rec.take()):
                strings.setdefault(s, []).append(item["prob"])
        sc = endtoend.make_scorer(tool_dir(name), 0)
    if sc is None or last is None:
        out["problem"] = ("scorer_cannot_load", {})
        return out
    gl = sorted(strings)
    base = [gl[t.draw(len(gl))] for _ in range(400)]
    cands = list(base)
    for _ in range(1200):
        s = base[t.draw(len(base))]
        k = t.draw(9)
        if k == 0:
            s = s.upper()
        elif k == 1:
            s = s.capitalize()
        elif k == 2:
            s = s.swapcase()
        elif k == 3:
            s = s + t.choice(["1", "12", "2019", "!", "#1", "<3", "123", "7"])
        elif k == 4:
            s = t.choice(["1", "!", "qwer", "1qaz", "a"]) + s
        elif k == 5 and s:
            i = t.draw(len(s))
            s = s[:i] + t.choice(["0", "x", "$", "a", "1"]) + s[i + 1:]
        elif k == 6:
            s = s + base[t.draw(len(base))]
        elif k == 7 and len(s) > 1:
            s = s[:-1]
        else:
            s = s[1:] + s[:1]
        if s and len(s) <= 30:
            cands.append(s)
    cands = list(dict.fromkeys(cands))
    out["candidates"] = len(cands)
    with guesser.streams():
        for s in cands:
            try:
                pw, cat, p, omen = sc.parse(s)
            except Exception:
                import traceback
                out["problem"] = ("scorer_raised", {"string": s, "exception": traceback.format_exc()[-600:]})
                return out
            if cat in ("e", "w") or not p or p <= 0:
                continue
            if p <= last * (1 + 1e-9):
                out["undecided"] += 1
                continue
            out["decided"] += 1
            got = strings.get(s)
            if not got:
                if endtoend.unrebuildable(s):
                    continue
                out["problem"] = ("scored_string_never_guessed", {"string": s, "probability": p, "category": cat,
                                                                  "guesser_reached_probability": last, "pops": n_pops})
                return out
            if not any(abs(g - p) <= 1e-9 * max(abs(p), abs(g)) for g in got):
                out["problem"] = ("score_differs_from_guess_probability", {"string": s, "score": p, "guesser": got[:4]})
                return out
            if s not in base:
                out["promises_beyond_emitted_sample"] += 1
    return out


def scorer_phase(tier, base_seed):
    names = available()
    out = {"shipped_ruleset_scorer_runs": 0, "shipped_ruleset_candidates": 0, "shipped_ruleset_promises_decided": 0,
           "shipped_ruleset_promises_on_mutated_strings": 0, "shipped_ruleset_undecided": 0, "violations": []}
    if not names:
        return out
    if tier == "quick":
        jobs = [(names[base_seed % len(names)], 15000, base_seed * 8111 + 3)]
    else:
        jobs = [(names[i % len(names)], 15000 + 20000 * (i // 2), base_seed * 8111 + 3 + i) for i in range(8)]
    for r in _fan_out(_scorer_job, jobs):
        out["shipped_ruleset_scorer_runs"] += 1
        out["shipped_ruleset_candidates"] += r["candidates"]
        out["shipped_ruleset_promises_decided"] += r["decided"]
        out["shipped_ruleset_promises_on_mutated_strings"] += r["promises_beyond_emitted_sample"]
        out["shipped_ruleset_undecided"] += r["undecided"]
        if r["problem"]:
            out["violations"].append({"seed": base_seed, "tape": [], "violation": {
                "property": "C13", "kind": "shipped_ruleset:" + r["problem"][0], "key": None,
                "detail": dict(r["problem"][1], ruleset=r["name"])}, "case": None})
    return out


# ---------------------------------------------------------------------------
# C04 / C14 on the shipped rulesets

def _expansion_job(name, flags, n_pops, max_level_strings=40000):
    """every pre-terminal of the first n_pops: the lines written == the reference cartesian expansion (multiset), the
    count returned == the lines written; Markov pre-terminals == RefOmen's strings of that level (levels up to
    max_level_strings strings)"""
    from lib_guesser.priority_queue import PcfgQueue
    sb, sc_ = flags.get("skip_brute", False), flags.get("skip_case", False)
    ref = ref_for(name, sb, sc_)
    out = {"name": name, "flags": flags, "problem": None, "preterminals": 0, "guesses": 0, "markov_levels": 0, "markov_strings": 0}
    rec = guesser.LineRecorder()
    shapes = {tuple(b["replacements"]) for b in ref.base}
    with guesser.streams(rec, guesser.Sink()):
        pcfg = guesser.load(tool_dir(name), sb, sc_, name=name)
        q = PcfgQueue(pcfg)
        for _ in range(n_pops):
            item = q.next()
            if item is None:
                break
            pt = tuple(tuple(x) for x in item["pt"])
            is_m = len(pt) == 1 and pt[0][0] == "M"
            if tuple(x[0] for x in pt) not in shapes:
                out["problem"] = ("preterminal_is_not_a_derivation_of_the_ruleset", {"pt": repr(pt)[:200]})
                return out
            if is_m:
                grp = ref.vars["M"][pt[0][1]]
                if len(grp["values"]) != 1:
                    continue
                level = int(grp["values"][0])
                try:
                    want = _omen_strings(name, level) if level <= 3 else None
                except OverflowError:
                    want = None
                if want is None or len(want) > max_level_strings:
                    continue
            else:
                size = 1
                for var, gi in pt:
                    size *= len(ref.vars[var][gi]["values"])
                if size > 200000:
                    continue
                want = ref.expand(pt)
            rec.take()
            ret = pcfg.create_guesses(item["pt"])
            lines = guesser.split_lines(rec.take())
            out["preterminals"] += 1
            out["guesses"] += len(lines)
            if is_m:
                out["markov_levels"] += 1
                out["markov_strings"] += len(lines)
            if ret != len(lines):
                out["problem"] = ("count_mismatch", {"pt": repr(pt)[:200], "returned": ret, "lines": len(lines)})
                return out
            if collections.Counter(lines) != collections.Counter(want):
                miss = collections.Counter(want) - collections.Counter(lines)
                extra = collections.Counter(lines) - collections.Counter(want)
                out["problem"] = ("omen_level_mismatch" if is_m else "expansion_mismatch",
                                  {"pt": repr(pt)[:200], "n_want": len(want), "n_got": len(lines),
                                   "missing": sorted(miss.elements())[:5], "extra": sorted(extra.elements())[:5]})
                return out
    return out


def expansion_phase(tier, base_seed):
    names = available()
    out = {"shipped_ruleset_expansion_runs": 0, "shipped_ruleset_preterminals_expanded": 0, "shipped_ruleset_guesses": 0,
           "shipped_ruleset_markov_levels": 0, "shipped_ruleset_markov_strings": 0, "violations": []}
    if not names:
        return out
    if tier == "quick":
        jobs = [(names[base_seed % len(names)], FLAG_SETS[(base_seed // 2) % 2 * 2], 4000, 5000)]
    else:
        jobs = [(nm, fl, 40000, 40000) for nm in names for fl in (FLAG_SETS[0], FLAG_SETS[2])]
    for r in _fan_out(_expansion_job, jobs):
        out["shipped_ruleset_expansion_runs"] += 1
        out["shipped_ruleset_preterminals_expanded"] += r["preterminals"]
        out["shipped_ruleset_guesses"] += r["guesses"]
        out["shipped_ruleset_markov_levels"] += r["markov_levels"]
        out["shipped_ruleset_markov_strings"] += r["markov_strings"]
        if r["problem"]:
            out["violations"].append({"seed": base_seed, "tape": [], "violation": {
                "property": "C04", "kind": "shipped_ruleset:" + r["problem"][0], "key": None,
                "detail": dict(r["problem"][1], ruleset=r["name"], flags=r["flags"])}, "case": None})
    return out


def restriction_phase(tier, base_seed):
    """C14 on the shipped rulesets: the flagged runs against the reference restriction (RefRuleset with the flags:
    Markov structure removed and the rest divided by 1-P(M); every mask list collapsed to one all-lower mask of
    probability 1), prefix judged as in C01/C02"""
    names = available()
    out = {"shipped_ruleset_restricted_runs": 0, "shipped_ruleset_restricted_pops": 0, "violations": []}
    if not names:
        return out
    n = 15000 if tier == "quick" else 200000
    if tier == "quick":
        jobs = [(names[base_seed % len(names)], FLAG_SETS[1 + base_seed % 3], n)]
    else:
        jobs = [(nm, fl, n) for nm in names for fl in FLAG_SETS[1:]]
    for r in _fan_out(_prefix_job, jobs):
        if r.get("void"):
            continue
        out["shipped_ruleset_restricted_runs"] += 1
        out["shipped_ruleset_restricted_pops"] += r["pops"]
        pb = r["problem"]
        if pb:
            out["violations"].append({"seed": base_seed, "tape": [], "violation": {
                "property": "C14", "kind": "shipped_ruleset:restricted_run_" + pb[1], "key": None,
                "detail": dict(pb[2], ruleset=r["name"], flags=r["flags"], pops=r["pops"])}, "case": None})
    return out


# ---------------------------------------------------------------------------
# C10 / C11 on the OMEN model of the shipped Default ruleset

def _omen_model_job(prop, seed, levels=(1, 2, 3)):
    """C10: levels 1..3 of Default's trained model (365 / 4 308 / 32 901 strings) from the real generator, each with a
    fresh cache and then in a drawn order over one shared Optimizer of a drawn size, against RefOmen.
    C11: the scorer's level of every string of levels 1..2, of a sample of level 3 and of mutated strings against
    RefOmen.level and against the level at which the generator emitted it."""
    from .refmodel import RefOmen
    from .tape import Tape
    from .checks import omen as omen_check
    from lib_guesser.omen.markov_cracker import MarkovCracker
    from lib_guesser.omen.optimizer import Optimizer
    t = Tape(seed=seed)
    odir = os.path.join(tool_dir("Default"), "Omen")
    out = {"problem": None, "levels": 0, "strings": 0, "scored": 0}
    g = omen_check.load_omen(odir)
    if g is None:
        out["problem"] = ("guesser_cannot_load_omen", {})
        return out
    ro = RefOmen(odir)
    want = {lvl: collections.Counter(_omen_strings("Default", lvl)) for lvl in levels}
    emitted_at = {}

    def enumerate_level(lvl, opt):
        mc = MarkovCracker(g, lvl, opt)
        got = []
        while len(got) <= 2 * sum(want[lvl].values()) + 5:
            s = mc.next_guess()
            if s is None:
                return got, True
            got.append(s)
        return got, False

    plans = [("fresh cache", [(lvl, None) for lvl in levels])]
    knob = t.draw(7)
    plans.append(("shared cache size %d" % knob, [(lvl, "shared") for lvl in t.shuffle(list(levels) + list(levels[:-1]))]))
    for what, plan in plans:
        shared = Optimizer(max_length=knob)
        for lvl, mode in plan:
            opt = shared if mode == "shared" else Optimizer(max_length=4)
            try:
                got, done = enumerate_level(lvl, opt)
            except Exception:
                import traceback
                out["problem"] = ("raised", {"level": lvl, "configuration": what, "exception": traceback.format_exc()[-900:]})
                return out
            gc = collections.Counter(got)
            out["levels"] += 1
            out["strings"] += len(got)
            if not done or gc != want[lvl]:
                out["problem"] = ("level_enumeration_wrong" if mode is None else "level_enumeration_depends_on_cache_history", {
                    "level": lvl, "configuration": what, "expected": sum(want[lvl].values()), "emitted": len(got),
                    "missing": sorted((want[lvl] - gc).elements())[:5], "extra": sorted((gc - want[lvl]).elements())[:5]})
                return out
            for s in gc:
                emitted_at.setdefault(s, lvl)
    if prop == "C10":
        return out
    from lib_scorer.omen_scorer import OmenScorer
    with guesser.streams():
        sc = OmenScorer(tool_dir("Default"), ro.encoding if hasattr(ro, "encoding") else "utf-8", t.choice([9, 9, 3, 18, 1]))
    pool = sorted(want[1]) + sorted(want[2]) + [s for i, s in enumerate(sorted(want.get(3, ()))) if i % 7 == seed % 7]
    cands = list(pool)
    for _ in range(1500):
        s = pool[t.draw(len(pool))]
        k = t.draw(5)
        if k == 0 and len(s) > 1:
            s = s[:-1]
        elif k == 1:
            s = s + t.choice("aeio1s")
        elif k == 2:
            i = t.draw(len(s))
            s = s[:i] + t.choice("aeio1sZ#") + s[i + 1:]
        elif k == 3:
            s = s[::-1]
        else:
            s = s.capitalize()
        cands.append(s)
    for s in dict.fromkeys(cands):
        try:
            lv = sc.parse(s)
        except Exception:
            import traceback
            out["problem"] = ("scorer_raised", {"string": s, "exception": traceback.format_exc()[-600:]})
            return out
        out["scored"] += 1
        rl = ro.level(s)
        if lv != rl and not (lv < 0 and rl < 0):
            out["problem"] = ("scorer_level_differs_from_model", {"string": s, "scorer": lv, "reference": rl})
            return out
        if s in emitted_at and emitted_at[s] != lv:
            out["problem"] = ("guesser_level_differs", {"string": s, "scorer": lv, "guesser_emitted_at": emitted_at[s]})
            return out
        if 1 <= lv <= max(levels) and s not in emitted_at:
            out["problem"] = ("guesser_never_emits_string", {"string": s, "level": lv})
            return out
    return out


def _big_level_job(seed):
    """an OMEN model whose CP.level passes 4 MiB (every 4-gram over 28 letters: 614 656 lines, 4.3 M characters; block
    sizes and size hints of a reader sit there): what the guesser's loader and the scorer hold afterwards, against an
    independent reading of the same files"""
    import itertools
    from . import scratch as _scratch, worlds
    from .refmodel import RefOmen
    from .tape import Tape
    from .checks import omen as omen_check
    t = Tape(seed=seed)
    alphabet = list("abcdefghijklmnopqrstuvwxyz") + [t.choice(["\u00e9", "0", "_"]), t.choice(["1", "\u00f1", "-"])]
    mult = t.choice([2654435761, 40503, 7919])
    lv = lambda i: (i * mult >> 3) % 11          # noqa
    grams3 = ["".join(x) for x in itertools.product(alphabet, repeat=3)]
    grams4 = ["".join(x) for x in itertools.product(alphabet, repeat=4)]
    if t.chance(1, 2):
        grams4 = grams4[::-1]
    omen = {"ngram": 4, "alphabet": alphabet, "encoding": "utf-8",
            "ip": [[lv(i + 5), g] for i, g in enumerate(grams3)], "ep": [[lv(i + 11), g] for i, g in enumerate(grams3)],
            "cp": [[lv(i), g] for i, g in enumerate(grams4)], "ln": [10, 10, 10, 0, 1, 0, 2, 1, 3, 10]}
    wr = _scratch.fresh_disk()
    odir = os.path.join(wr, "Rules", "R", "Omen")
    os.makedirs(odir, exist_ok=True)
    worlds.write_omen(omen, odir)
    out = {"problem": None, "cp_lines": len(grams4), "cp_chars": os.path.getsize(os.path.join(odir, "CP.level"))}
    ro = RefOmen(odir)
    g = omen_check.load_omen(odir)
    if g is None:
        out["problem"] = ("guesser_cannot_load_omen", {"cp_lines": len(grams4)})
        return out
    n_cp = sum(len(chars) for by_level in g["cp"].values() for chars in by_level.values())
    n_ip = sum(len(v) for v in g["ip"].values())
    n_ep = len(grams3)
    ref_cp = sum(len(v) for v in ro.cp.values())
    if n_cp != ref_cp or n_ip != len(ro.ip) or len(g["ep"]) != n_ep:
        out["problem"] = ("guesser_omen_loader_holds_other_ngrams_than_the_files", {
            "CP.level": [n_cp, ref_cp], "IP.level": [n_ip, len(ro.ip)], "EP.level": [len(g["ep"]), n_ep],
            "CP_characters": out["cp_chars"]})
        return out
    # spot checks, biased to the end of the file
    for _ in range(4000):
        i = len(grams4) - 1 - min(t.draw(len(grams4)), t.draw(len(grams4)))
        gram, level = grams4[i], lv(i)
        if gram[-1] not in g["cp"].get(gram[:-1], {}).get(level, []):
            out["problem"] = ("guesser_omen_loader_holds_other_ngrams_than_the_files", {"ngram": gram, "level_in_file": level,
                                                                                 "line": i + 1})
            return out
    # the scorer reads the same files with its own reader: a string made of late n-grams gets the reference level
    try:
        from lib_scorer.omen_scorer import OmenScorer
        with guesser.streams():
            sc = OmenScorer(os.path.join(wr, "Rules", "R"), "utf-8", 40)
        for _ in range(300):
            n = t.between(4, 9)
            s = "".join(alphabet[len(alphabet) - 1 - min(t.draw(28), t.draw(28))] for _ in range(n))
            want = ro.level(s)
            got = sc.parse(s)
            if want >= 0 and got != want and not (want > 40 and got == -1):
                out["problem"] = ("scorer_level_differs_from_reference", {"string": s, "scorer": got, "reference": want})
                return out
    except ImportError:
        pass
    return out


def omen_model_phase(prop, tier, base_seed):
    out = {"shipped_omen_model_runs": 0, "shipped_omen_levels_enumerated": 0, "shipped_omen_strings": 0,
           "shipped_omen_strings_scored": 0, "violations": []}
    if "Default" not in available():
        return out
    jobs = [(prop, base_seed * 9973 + 5 + i, (1, 2) if tier == "quick" else (1, 2, 3)) for i in range(1 if tier == "quick" else 8)]
    for r in _fan_out(_omen_model_job, jobs):
        out["shipped_omen_model_runs"] += 1
        out["shipped_omen_levels_enumerated"] += r["levels"]
        out["shipped_omen_strings"] += r["strings"]
        out["shipped_omen_strings_scored"] += r["scored"]
        if r["problem"]:
            out["violations"].append({"seed": base_seed, "tape": [], "violation": {
                "property": prop, "kind": "shipped_ruleset:" + r["problem"][0], "key": None,
                "detail": dict(r["problem"][1], ruleset="Default")}, "case": None})
    out["big_level_file_models"] = 0
    for r in _fan_out(_big_level_job, [(base_seed * 6007 + 3 + i,) for i in range(1 if tier == "quick" else 4)]):
        out["big_level_file_models"] += 1
        out["big_level_file_cp_characters"] = r["cp_chars"]
        if r["problem"]:
            out["violations"].append({"seed": base_seed, "tape": [], "violation": {
                "property": prop, "kind": "big_level_file:" + r["problem"][0], "key": None,
                "detail": r["problem"][1]}, "case": None})
    return out


# ---------------------------------------------------------------------------
# realistic training passwords: derivations sampled from a shipped ruleset (read by RefRuleset, no repository code)

def realistic_passwords(t, count, name="Default"):
    """`count` passwords drawn from the shipped ruleset's own grammar, skewed towards probable structures and values:
    real words, years, keyboard walks, context strings, multi-words, capitalisation masks as 1 M real users chose them"""
    if name not in available():
        return []
    ref = ref_for(name)
    bases = [b for b in ref.base if "M" not in b["replacements"]][:4000]
    out = []
    tries = 0
    while len(out) < count and tries < count * 3:
        tries += 1
        b = bases[min(t.draw(len(bases)), t.draw(len(bases)), t.draw(len(bases)))]
        segs = []
        ok = True
        for r in b["replacements"]:
            groups = ref.vars.get(r)
            if not groups:
                ok = False
                break
            g = groups[min(t.draw(len(groups)), t.draw(len(groups)))]
            v = g["values"][t.draw(len(g["values"]))]
            if r[0] == "C":
                if not segs or len(segs[-1]) != len(v):
                    ok = False
                    break
                segs[-1] = "".join(c.upper() if m == "U" else c for c, m in zip(segs[-1], v))
            else:
                segs.append(v)
        if ok:
            pw = "".join(segs)
            if pw and len(pw) <= 21:
                out.append(pw)
    return out


# ---------------------------------------------------------------------------
# wide synthetic rulesets: more than a thousand base structures (block sizes and thresholds of a queue sit there)

def _wide_job(seed, flat=False):
    import itertools
    from . import worlds
    from .tape import Tape
    t = Tape(seed=seed)
    labels = ["D1", "D2", "D3", "O1", "O2", "A1", "A2"]
    pool = "dyadic" if t.chance(1, 2) else "decimal"
    variables = {}
    # half of the worlds have one probability group per variable (one pre-terminal per structure): the order is then the
    # order of the base structures alone, and a block of them is used up completely before the next one is needed
    for v in labels:
        variables[v] = worlds.gen_variable(t, v, pool, max_groups=1 if flat else 3, max_group_size=2)
        if v[0] == "A":
            variables["C" + v[1:]] = worlds.gen_variable(t, "C" + v[1:], pool, max_groups=1 if flat else 2, max_group_size=1)
    names = []
    for k in (1, 2, 3, 4):
        for combo in itertools.product(labels, repeat=k):
            names.append("".join(combo))
    S = t.between(1100, 2600)
    names = t.shuffle(names)[:S]
    # base probabilities: flat blocks with steps at round positions, or strictly falling
    shape = t.draw(3)
    if flat:
        shape = 3       # no two pre-terminals of equal probability: the order is strict all the way down
    step_at = t.choice([1000, 1000, 512, 2000, S // 2])
    base = []
    for i, nm in enumerate(names):
        if shape == 0:
            p = 9e-4 if i < step_at else 5e-4 * 0.5
        elif shape == 1:
            p = (2 * S - i) / float(S * S * 2)
        elif shape == 3:
            p = 1.0 / (997.0 + 13 * i + (i * i % 7))
        else:
            p = [8e-4, 4e-4, 2e-4, 1e-4][min(3, i * 4 // S)]
        base.append([nm, repr(p)])
    spec = {"kind": "syn", "pool": pool, "encoding": "utf-8", "uuid": "00000000-0000-4000-8000-000000000888",
            "vars": variables, "base": base, "omen": worlds.TRIVIAL_OMEN, "omen_prob": None, "omen_keyspace": None}
    wr = scratch.fresh_disk()
    rdir = os.path.join(wr, "Rules", "R")
    worlds.write_ruleset(spec, rdir)
    ref = RefRuleset(rdir)
    nlang = ref.language_size()
    out = {"seed": seed, "structures": S, "language": nlang, "problem": None, "pops": 0}
    if nlang > 400000:
        out["void"] = "language too large"
        return out
    with guesser.streams():
        pcfg = guesser.load(rdir)
        hist = guesser.exhaust(pcfg, max_pops=nlang + 1000, expand=False)
    overflow = bool(hist and hist[-1].get("overflow"))
    pops = [(h["pt"], h["prob"], h["base_prob"]) for h in hist if not h.get("overflow")]
    out["pops"] = len(pops)
    pb = judge_prefix(ref, pops)
    if pb:
        out["problem"] = pb
    elif overflow:
        out["problem"] = ("C02", "does_not_terminate", {"pops": len(pops), "language": nlang})
    elif len(pops) != nlang:
        out["problem"] = ("C02", "missing_at_exhaustion", {"emitted": len(pops), "language": nlang, "base_structures": S})
    return out


def wide_phase(prop, tier, base_seed):
    out = {"wide_rulesets": 0, "wide_ruleset_base_structures_max": 0, "wide_ruleset_pops": 0, "violations": []}
    jobs = [(base_seed * 6469 + 77 + i, i % 2 == 0) for i in range(2 if tier == "quick" else 8)]
    for r in _fan_out(_wide_job, jobs):
        if r.get("void"):
            continue
        out["wide_rulesets"] += 1
        out["wide_ruleset_base_structures_max"] = max(out["wide_ruleset_base_structures_max"], r["structures"])
        out["wide_ruleset_pops"] += r["pops"]
        pb = r["problem"]
        if pb and pb[0] == prop:
            out["violations"].append({"seed": r["seed"], "tape": [], "violation": {
                "property": prop, "kind": "wide_ruleset:" + pb[1], "key": None,
                "detail": dict(pb[2], base_structures=r["structures"], language=r["language"])}, "case": None})
    return out
