"""Deterministic scheduler for the guesser's two threads.

The repository's ``keypress`` function runs unmodified on a real OS thread, but a
thread only executes while it holds the *baton*; it gives the baton up only inside
``Sim.yield_point`` -- at every traced source line of the session code and inside
every seam call (input, sleep, is_alive).  Who runs next is decided by a PCT-style
schedule drawn from the tape: initial priorities plus a few priority change points
(by step index, or anchored at interesting labels such as the line that sets
``should_exit``).  Time is virtual.  stdin is a script of events.
"""

import sys
import threading as _threading

STEP_CAP = 2_000_000

TRACED = {
    "cracking_session.py": None,                      # every function
    "pcfg_grammar.py": {"omen_generate_guesses", "print_guess", "create_guesses", "restore_omen"},
    "priority_queue.py": {"next"},
    "status_report.py": {"print_status"},
}


class SimKilled(BaseException):
    pass


class SimDeadlock(Exception):
    pass


class Keyboard:
    """script of stdin events: each {'at': guesses_written, 'kind': ..., 'text': ...}"""

    def __init__(self, events):
        self.events = list(events)
        self.delivered = []

    def head_ready(self, nlines):
        return bool(self.events) and self.events[0]["at"] <= nlines and self.events[0]["kind"] != "never"

    def pop(self):
        ev = self.events.pop(0)
        return ev


class SimThread:
    def __init__(self, sim, name, target=None, args=()):
        self.sim = sim
        self.name = name
        self.target = target
        self.args = args
        self.sem = _threading.Semaphore(0)
        self.finished = False
        self.started = False
        self.blocked = None          # None | 'input' | 'sleep'
        self.deadline = 0.0
        self.priority = 0
        self.exc = None
        self.real = None
        self.daemon = False

    # threading.Thread API used by the session code
    def start(self):
        sim = self.sim
        self.started = True
        sim.threads.append(self)
        if len(self.args) >= 2:
            sim.ctx.pcfg = self.args[1]
        k = sim.ctx.knobs.get("optimizer_max_length") if sim.ctx.knobs else None
        if k is not None and sim.ctx.pcfg is not None:
            from lib_guesser.omen.optimizer import Optimizer
            sim.ctx.pcfg.omen_optimizer = Optimizer(max_length=k)
        if sim.ctx.pcfg is not None:
            from .session import watch_should_exit
            watch_should_exit(sim.ctx.pcfg, sim.ctx, sim)
        self.real = _threading.Thread(target=self._body, daemon=True, name="sim-" + self.name)
        self.real.start()
        sim.ctx.thread_started = True
        sim.yield_point("thread_start")

    def is_alive(self):
        self.sim.ctx.alive_calls += 1
        self.sim.yield_point("is_alive")
        return self.started and not self.finished

    def join(self, timeout=None):
        pass

    def _body(self):
        sim = self.sim
        self.sem.acquire()
        try:
            if sim.killing:
                return
            sys.settrace(sim.tracer)
            try:
                self.target(*self.args)
            except SimKilled:
                pass
            except BaseException as e:      # the thread died by an exception (EOFError, ...)
                self.exc = e
                sim.log.append((sim.step, "thread_died", type(e).__name__))
        finally:
            sys.settrace(None)
            self.finished = True
            sim.on_thread_exit(self)


class SimThreading:
    """stands in for the ``threading`` module inside cracking_session"""

    def __init__(self, sim):
        self.sim = sim

    def Thread(self, target=None, args=(), **kw):
        t = SimThread(self.sim, "kbd", target, args)
        t.priority = self.sim.kbd_priority
        return t

    def main_thread(self):
        sim = self.sim

        class _M:
            @staticmethod
            def is_alive():
                sim.yield_point("main_is_alive")
                return not sim.main.finished
        return _M


class SimTime:
    """stands in for the ``time`` module in cracking_session / status_report"""

    def __init__(self, sim):
        self.sim = sim

    def sleep(self, s):
        self.sim.sleep(s)

    def perf_counter(self):
        return self.sim.ctx.clock.now

    def time(self):
        return 1.7e9 + self.sim.ctx.clock.now


class Sim:
    def __init__(self, ctx, keyboard, schedule):
        """schedule: {'main_first': bool, 'steps': [int...], 'labels': [(label, occurrence)...]}"""
        self.ctx = ctx
        self.keyboard = keyboard
        self.main = SimThread(self, "main")
        self.main.started = True
        self.threads = [self.main]
        self.current = self.main
        self.step = 0
        self.killing = False
        self.log = []                 # (step, what, detail): switches, deliveries, deaths
        self.cp_steps = set(schedule.get("steps", ()))
        self.cp_labels = {}
        for lab, occ in schedule.get("labels", ()):
            self.cp_labels.setdefault(lab, set()).add(occ)
        self.label_seen = {}
        self.main.priority = 2 if schedule.get("main_first", True) else 1
        self.kbd_priority = 1 if schedule.get("main_first", True) else 2
        self.low = 0
        self.should_exit_step = None
        self.should_exit_lines = None
        self.fired_changes = 0
        self._line_labels = {}
        self.threading = SimThreading(self)
        self.time = SimTime(self)
        self._orig_thread_ctor = None
        self.deadlock = False
        # directed interleaving: park the keyboard thread right before it sets should_exit and release it
        # exactly when main reaches a labelled program point for the n-th time
        self.sync = schedule.get("sync")
        self.sync_state = "idle"

    # -- tracing -----------------------------------------------------------
    def tracer(self, frame, event, arg):
        if event != "call":
            return None
        code = frame.f_code
        fn = code.co_filename
        base = fn[fn.rfind("/") + 1:]
        funcs = TRACED.get(base, 0)
        if funcs == 0:
            return None
        if funcs is not None and code.co_name not in funcs:
            return None
        return self._local

    def _local(self, frame, event, arg):
        if event == "line":
            code = frame.f_code
            fn = code.co_filename
            self.yield_point("line", (fn[fn.rfind("/") + 1:], frame.f_lineno))
        return self._local

    def set_line_labels(self, labels):
        """{(basename, lineno): label} for anchored change points"""
        self._line_labels = labels

    # -- core --------------------------------------------------------------
    def runnable(self, t):
        if t.finished or not t.started:
            return False
        if t.blocked == "input":
            return self.keyboard.head_ready(self.ctx.nlines) or self.killing
        if t.blocked == "sleep":
            return self.ctx.clock.now >= t.deadline or self.killing
        if t.blocked == "sync":
            return self.sync_state == "released" or self.killing
        return True

    def pick(self):
        for _ in range(3):
            best = None
            for t in self.threads:
                if self.runnable(t) and (best is None or t.priority > best.priority):
                    best = t
            if best is not None:
                return best
            # nothing runnable: jump the clock to the next timer
            sleepers = [t.deadline for t in self.threads if not t.finished and t.blocked == "sleep"]
            if not sleepers:
                break
            self.ctx.clock.now = min(sleepers)
        return None

    def yield_point(self, kind, where=None):
        me = self.current
        if _threading.current_thread() is not (me.real if me.real is not None else _MAIN_REAL[0]):
            # a thread that is not holding the baton must never get here
            from .runner import flag_harness_error
            flag_harness_error("scheduler invariant broken: yield from a thread without the baton")
            raise RuntimeError("scheduler invariant broken: yield from a thread without the baton")
        if self.killing and me is not self.main:
            raise SimKilled()
        self.step += 1
        if self.step > STEP_CAP:
            from .runner import flag_harness_error
            flag_harness_error("scheduler step cap (%d) reached" % STEP_CAP)      # a harness limit, not a verdict
            raise SimDeadlock("step cap reached")
        label = None
        if kind == "line":
            label = self._line_labels.get(where)
        elif kind in ("is_alive", "input", "sleep", "thread_start", "blocked", "woke"):
            label = kind
        change = self.step in self.cp_steps
        if label is not None:
            n = self.label_seen.get(label, 0) + 1
            self.label_seen[label] = n
            if n in self.cp_labels.get(label, ()):
                change = True
            if label == "should_exit_set" and self.should_exit_step is None:
                # the line `pcfg.should_exit = True` is about to execute
                self.should_exit_step = self.step
                self.should_exit_lines = self.ctx.nlines
        if self.sync is not None and label is not None:
            if me is not self.main and label == "should_exit_set" and self.sync_state == "idle":
                self.sync_state = "waiting"
                me.blocked = "sync"
                try:
                    while self.sync_state != "released":
                        if self.killing:
                            raise SimKilled()
                        nxt = self.pick()
                        if nxt is None or nxt is me:
                            break
                        self.switch(me, nxt, "sync_wait")
                finally:
                    me.blocked = None
                self.sync_state = "done"
                self.log.append((self.step, "sync_release", self.sync[0], self.label_seen.get(self.sync[0], 0), self.ctx.nlines))
                return
            if me is self.main and self.sync_state == "waiting" and label == self.sync[0] \
                    and self.label_seen.get(label, 0) >= self.sync[1]:
                self.sync_state = "released"
                change = True
            elif me is not self.main and self.sync_state == "done" and label == "after_should_exit":
                self.sync_state = "finished"
                change = True            # hand control straight back: the flag was set at exactly that point of main
        if change:
            self.low -= 1
            me.priority = self.low
            self.fired_changes += 1
        nxt = self.pick()
        if nxt is None:
            if me.blocked:
                self.deadlock = True
                raise SimDeadlock("no runnable thread")
            return
        if nxt is not me:
            self.switch(me, nxt, kind)

    def switch(self, me, nxt, why):
        self.log.append((self.step, "switch", me.name + ">" + nxt.name, why, self.ctx.nlines))
        self.current = nxt
        nxt.sem.release()
        me.sem.acquire()
        # resumed
        if self.killing and me is not self.main:
            raise SimKilled()

    def on_thread_exit(self, t):
        """called on t's own OS thread as it ends: hand the baton on"""
        if self.killing:
            self._kill_ack.release()
            return
        self.log.append((self.step, "thread_exit", t.name, self.ctx.nlines))
        nxt = self.pick()
        if nxt is None:
            nxt = self.main
        self.current = nxt
        nxt.sem.release()

    # -- seams ---------------------------------------------------------------
    def input(self, prompt=""):
        me = self.current
        self.yield_point("input")
        while not self.keyboard.head_ready(self.ctx.nlines):
            me.blocked = "input"
            try:
                self.yield_point("blocked")
            finally:
                me.blocked = None
        ev = self.keyboard.pop()
        self.keyboard.delivered.append((ev["kind"], ev.get("text"), self.ctx.nlines, self.step))
        self.log.append((self.step, "kbd", ev["kind"], ev.get("text"), self.ctx.nlines))
        self.ctx.kbd_faults[ev["kind"] if ev["kind"] != "line" else "line:" + (ev.get("text") or "")[:1]] += 1
        k = ev["kind"]
        if k == "line":
            return ev.get("text", "")
        if k == "eof":
            raise EOFError("EOF when reading a line")
        if k == "closed":
            raise ValueError("I/O operation on closed file.")
        if k == "lost":
            raise RuntimeError("input(): lost sys.stdin")
        if k == "ioerror":
            raise OSError(5, "Input/output error")
        if k == "undecodable":
            raise UnicodeDecodeError("utf-8", b"\xff", 0, 1, "invalid start byte")
        raise RuntimeError("unknown keyboard event " + k)

    def sleep(self, s):
        me = self.current
        if me is self.main:
            self.ctx.clock.now += s
            return
        me.deadline = self.ctx.clock.now + s
        me.blocked = "sleep"
        try:
            self.yield_point("sleep")
            while self.ctx.clock.now < me.deadline and not self.killing:
                self.yield_point("blocked")
        finally:
            me.blocked = None
        self.yield_point("woke")

    # -- lifecycle -------------------------------------------------------------
    def shutdown(self):
        """main has finished: release and join every other thread"""
        self.killing = True
        self._kill_ack = _threading.Semaphore(0)
        self.main.finished = True
        for t in self.threads:
            if t is self.main or t.real is None:
                continue
            if not t.finished:
                self.current = t
                t.sem.release()
                self._kill_ack.acquire()
            t.real.join(10)
            if t.real.is_alive():
                raise RuntimeError("simulated thread did not terminate")
        self.current = self.main

    def signature(self):
        return tuple((e[1], e[2]) + tuple(e[3:]) for e in self.log)


_MAIN_REAL = [None]


def run_scheduled(sim, fn):
    """run fn() as the simulated main thread under sim's schedule"""
    _MAIN_REAL[0] = _threading.current_thread()
    sys.settrace(sim.tracer)
    try:
        return fn()
    finally:
        sys.settrace(None)
        sim.shutdown()
