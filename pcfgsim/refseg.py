"""RefSeg / RefTally: soundness predicates for a segmentation and the tallies it implies.
Not a second segmenter.  Nothing here imports repository code; the keyboard rows are
transcribed data, the adjacency rule is written independently.
"""

import collections
import re

CONTEXT = {";p", ":p", "*0*", "#1", "No.1", "no.1", "No.", "i<3", "I<3", "<3", "Mr.", "mr.", "MR.", "MS.", "Ms.", "ms.",
           "Mz.", "mz.", "MZ.", "St.", "st.", "Dr.", "dr."}

QWERTY = ["1234567890-=", "!@#$%^&*()_+", "qwertyuiop[]\\", "QWERTYUIOP{}|", "asdfghjkl;'", "ASDFGHJKL:\"",
          "zxcvbnm,./", "ZXCVBNM<>?"]
JCUKEN = ["1234567890-=", "!\"№;%:?*()_+", "йцукенгшщзхъ\\", "ЙЦУКЕНГШЩЗХЪ/", "фывапролджэ", "ФЫВАПРОЛДЖЭ",
          "ячсмитьбю", "ЯЧСМИТЬБЮ,"]


def _positions(layout):
    pos = {}
    for r, row in enumerate(layout):
        for c, ch in enumerate(row):
            pos.setdefault(ch, (r // 2 + 1, c))     # first occurrence wins, as an index() lookup would
    return pos


_LAYOUTS = [_positions(QWERTY), _positions(JCUKEN)]


def _adjacent(a, b):
    (r1, c1), (r2, c2) = a, b
    if (r1, c1) == (r2, c2):
        return False
    if r1 == r2:
        return abs(c1 - c2) == 1
    if r2 == r1 + 1:
        return c2 in (c1, c1 - 1)
    if r2 == r1 - 1:
        return c2 in (c1, c1 + 1)
    return False


def is_walk(s):
    """every consecutive pair adjacent on one single layout"""
    for lay in _LAYOUTS:
        if all(ch in lay for ch in s) and all(_adjacent(lay[a], lay[b]) for a, b in zip(s, s[1:])):
            return True
    return False


def char_classes(s):
    return len({"a" if c.isalpha() else "d" if c.isdigit() else "o" for c in s})


LABEL = re.compile(r"^([ADOKYXEWM])([0-9]*)$")


class AlphaHistory:
    """plain Counter of maximal alpha runs fed with the detector's training history"""

    def __init__(self, threshold=5, min_len=4, max_len=21):
        self.c = collections.Counter()
        self.threshold, self.min_len, self.max_len = threshold, min_len, max_len

    def train(self, password, set_threshold=False):
        if not (self.min_len <= len(password) <= self.max_len):
            return
        run = ""
        for ch in password.lower() + "\0":
            if ch.isalpha():
                run += ch
            else:
                if len(run) >= self.min_len:
                    if set_threshold and self.c[run] == 0:
                        self.c[run] = self.threshold
                    else:
                        self.c[run] += 1
                run = ""

    def count(self, s):
        return self.c.get(s.lower(), 0)


def check_segmentation(password, sections, hist):
    """returns None or (kind, detail)"""
    pos = 0
    prev_label = None
    alpha_run = []
    problems = None

    def flush_alpha():
        nonlocal alpha_run
        run = alpha_run
        alpha_run = []
        if len(run) >= 2:
            whole = "".join(run)
            ok = all(len(p) >= hist.min_len and hist.count(p) >= hist.threshold for p in run) \
                and hist.count(whole) < hist.threshold
            if not ok:
                return ("multiword_split_not_justified", {"parts": run, "counts": [hist.count(p) for p in run],
                                                          "whole_count": hist.count(whole)})
        return None

    # digit runs are maximal: a D or Y segment never touches a digit that belongs to a plain neighbour
    # (keyboard walks, context strings, e-mail and website segments may legitimately contain digits)
    for i, (seg, label) in enumerate(sections):
        if not label or label[0] not in "DY" or not seg:
            continue
        for j, edge in ((i - 1, -1), (i + 1, 0)):
            if 0 <= j < len(sections):
                nseg, nlabel = sections[j]
                if nseg and nlabel and nlabel[0] in "ADOY" and nseg[edge].isdigit():
                    return ("digit_run_not_maximal", {"segment": seg, "label": label, "neighbour": nseg, "neighbour_label": nlabel})
    for seg, label in sections:
        if label is None:
            return ("untyped_segment", {"segment": seg})
        if seg == "":
            return ("empty_segment", {"label": label})
        m = LABEL.match(label)
        if not m:
            return ("unknown_label", {"label": label})
        kind, num = m.group(1), m.group(2)
        sl = password[pos:pos + len(seg)]
        if kind == "W":
            if sl.lower() != seg:
                return ("not_a_tiling", {"at": pos, "segment": seg, "password_slice": sl, "label": label})
        elif sl != seg:
            return ("not_a_tiling", {"at": pos, "segment": seg, "password_slice": sl, "label": label})
        pos += len(seg)
        if kind in "ADOK":
            if num == "" or int(num) != len(seg):
                return ("length_label_wrong", {"segment": seg, "label": label})
        if kind != "A":
            p = flush_alpha()
            if p:
                return p
        if kind == "A":
            if not all(c.isalpha() for c in seg):
                return ("alpha_segment_with_non_letter", {"segment": seg})
            alpha_run.append(seg.lower())
        elif kind == "D":
            if not all(c.isdigit() for c in seg):
                return ("digit_segment_with_non_digit", {"segment": seg})
            if prev_label == "D":
                return ("digit_run_not_maximal", {"segment": seg})
        elif kind == "O":
            if any(c.isalpha() or c.isdigit() for c in seg):
                return ("other_segment_with_letter_or_digit", {"segment": seg})
        elif kind == "Y":
            if not (label == "Y1" and len(seg) == 4 and seg.isdigit() and seg[:2] in ("19", "20")):
                return ("year_unsound", {"segment": seg, "label": label})
        elif kind == "K":
            if len(seg) < 4 or not is_walk(seg) or char_classes(seg) < 2:
                return ("keyboard_walk_unsound", {"segment": seg, "walk": is_walk(seg), "classes": char_classes(seg)})
        elif kind == "X":
            if label != "X1" or seg not in CONTEXT:
                return ("context_segment_unsound", {"segment": seg, "label": label})
        prev_label = kind
    p = flush_alpha()
    if p:
        return p
    if pos != len(password):
        return ("not_a_tiling", {"covered": pos, "length": len(password)})
    return None


def mask_of(seg):
    return "".join("U" if c.isupper() else "L" for c in seg)


class Tally:
    """the counters implied by a list of segmentations"""

    def __init__(self):
        C = collections.Counter
        self.alpha = collections.defaultdict(C)
        self.masks = collections.defaultdict(C)
        self.digits = collections.defaultdict(C)
        self.other = collections.defaultdict(C)
        self.keyboard = collections.defaultdict(C)
        self.years = C()
        self.context = C()
        self.emails = C()
        self.providers = C()
        self.urls = C()
        self.base = C()
        self.raw_base = C()
        self.prince = C()

    def add(self, sections):
        labels = []
        for seg, label in sections:
            labels.append(label)
            self.prince[label] += 1
            k = label[0]
            if k == "A":
                self.alpha[len(seg)][seg.lower()] += 1
                self.masks[len(seg)][mask_of(seg)] += 1
            elif k == "D":
                self.digits[len(seg)][seg] += 1
            elif k == "O":
                self.other[len(seg)][seg] += 1
            elif k == "K":
                self.keyboard[len(seg)][seg] += 1
            elif k == "Y":
                self.years[seg] += 1
            elif k == "X":
                self.context[seg] += 1
            elif k == "E":
                low = seg.lower()
                self.emails[low] += 1
                self.providers[low[low.find("@") + 1:]] += 1
            elif k == "W":
                self.urls[seg] += 1
        s = "".join(labels)
        self.raw_base[s] += 1
        if not any(l[0] in "EW" for l in labels):
            self.base[s] += 1
