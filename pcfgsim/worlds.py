"""World generators: synthetic rulesets (W-syn), synthetic OMEN models (W-omen)
and training lists (W-train).  Every decision is a tape draw; smaller draws
give simpler worlds.  A world is a JSON-serialisable spec; ``write_ruleset``
puts it on the scratch disk in the documented ruleset format.
"""

import json
import os

from .tape import Tape

# ---------------------------------------------------------------------------
# probability pools (strings, so that the bytes on disk are controlled)

POOLS = {
    "dyadic":  ["0.5", "0.25", "0.125", "0.0625", "0.03125"],
    "decimal": ["0.6", "0.3", "0.2", "0.1", "0.05", "0.01"],
    "tie":     ["0.5", "0.25", "0.125"],
    "tiny":    ["1e-150", "1e-160", "1e-170", "1e-300", "1e-323", "5e-324"],
    "mixed":   ["0.9", "0.5", "0.3", "0.25", "0.1", "1e-160", "5e-324"],
}
POOL_NAMES = ["dyadic", "decimal", "tie", "normalised", "mixed", "tiny", "ratio", "longtail", "ulp"]

ALPHA_CHARS = "abcxyz"
SPECIAL_ALPHA = ["é", "ф", "α", "ñ", "ß", "ŉ", "ﬁ", "ǆ", "\u7801", "\u05d0", "\u0645", "\u0958", "\u1100", "\u1161", "\u212b"]   # 1:1 case maps, plus letters whose upper() is 2 characters
DIGITS = "0123456789"
ODD_CHARS = ["\u00a0", "\u3000", "\u2003", "\u200f", "\u00ad", "\u200d", "\ue000", "\u037e", "\u2126", "\u0301", "\u0344"]
OTHERS = "!@#$ .-_"
KEYB = ["1qaz", "qwer", "asdf", "1q2w", "zaq1", "2wsx"]
KEYB_BY_LEN = {4: KEYB + ["!QAZ", "1QAZ", "ZAQ!"], 5: ["1qaz2", "qwer4", "asdf5", "zaq12", "1q2w3"], 6: ["1qaz2w", "1q2w3e", "zaq12w"]}
YEARS = ["2019", "1999", "2000", "1987", "2012"]
CONTEXT = ["<3", ";p", "#1", "*0*", ":)", ":D", ";P", "XD"]


def _descending_probs(t, pool, k):
    """k strictly descending probability strings"""
    if pool == "ratio":
        # small integer counts over a small total: 3/6*2/5 and 2/6*3/5 are equal as rationals, not always as doubles
        menu = [6, 4, 3, 2, 1]
        start = t.draw(len(menu) - min(k, len(menu)) + 1)
        counts = menu[start:start + min(k, len(menu))]
        total = sum(counts) + t.choice([0, 0, 1, 3])
        return [repr(c / total) for c in counts]
    if pool == "ulp":
        # neighbours that are different doubles but agree in the first 12-15 significant digits (count ratios of a huge
        # list, or a file another tool re-normalised): distinct probabilities, however close
        import math
        p = t.choice([0.3, 0.1234567890123454, 0.06172839450617262, 0.5000000000000001, 0.2000000000000002])
        out = []
        for _ in range(k):
            out.append(repr(p))
            for _s in range(t.between(1, 4)):
                p = math.nextafter(p, 0.0)
            if t.chance(1, 3):
                p = p * 0.5
        return out
    if pool == "longtail":
        # values seen once in 10^3 .. 10^8: products of a few of them land around and below the machine epsilon
        # (2.2e-16), where an absolute tolerance in a comparison stops separating distinct probabilities
        scale = t.choice(["e-03", "e-04", "e-05", "e-06", "e-08"])
        digits = sorted({t.between(1, 9) for _ in range(k + 2)}, reverse=True)
        out = ["%d%s" % (d, scale) for d in digits[:k]]
        while len(out) < k:
            out.append("1e-%d" % (12 + len(out)))
        return out
    if pool == "normalised":
        counts = sorted({t.between(1, 12) for _ in range(k + 2)}, reverse=True)
        while len(counts) < k:
            counts.append(counts[-1] + 13)
            counts.sort(reverse=True)
        counts = counts[:k]
        total = sum(counts) + t.between(0, 5)
        return [repr(c / total) for c in counts]
    src = POOLS[pool]
    k = min(k, len(src))
    start = t.draw(len(src) - k + 1)
    picks = src[start:start + k]
    return picks


def _values_for(t, kind, n, count, used, hostile):
    out = []
    tries = 0
    while len(out) < count and tries < 50:
        tries += 1
        if kind == "A":
            chars = ALPHA_CHARS
            v = "".join(chars[t.draw(len(chars))] for _ in range(n))
            if hostile and t.chance(1, 6):
                i = t.draw(n)
                v = v[:i] + t.choice(SPECIAL_ALPHA) + v[i + 1:]
            elif hostile and t.chance(1, 8):
                # a hand-edited ruleset ("manually tweak"): a word kept in its usual spelling, e.g. iPhone; a mask letter
                # 'U' upper-cases, any other leaves the letter as the ruleset stores it
                i = t.draw(n)
                v = v[:i] + v[i].upper() + v[i + 1:]
        elif kind == "D":
            v = "".join(DIGITS[t.draw(10)] for _ in range(n))
        elif kind == "O":
            v = "".join(OTHERS[t.draw(len(OTHERS))] for _ in range(n))
            if hostile and t.chance(1, 8):
                v = v[:-1] + "\U0001F600"
            elif hostile and t.chance(1, 6):
                # characters the trainer accepts although str.isprintable() / str.isspace() single them out: no-break and
                # ideographic space, right-to-left mark, soft hyphen, zero-width joiner, a private-use code point
                k = t.draw(n)
                v = v[:k] + t.choice(ODD_CHARS) + v[k + 1:]
        elif kind == "K":
            pool = KEYB_BY_LEN.get(n) or [(k * 4)[:n] for k in KEYB]
            v = pool[t.draw(len(pool))]
        elif kind == "Y":
            v = YEARS[t.draw(len(YEARS))]
        elif kind == "X":
            v = CONTEXT[t.draw(len(CONTEXT))]
        elif kind == "C":
            v = "".join("LU"[t.draw(2)] for _ in range(n))
        else:
            raise ValueError(kind)
        if v not in used:
            used.add(v)
            out.append(v)
    return out


def gen_variable(t, name, pool, max_groups=4, max_group_size=3, hostile=False):
    kind = name[0]
    n = int(name[1:]) if len(name) > 1 else 1
    ngroups = t.between(1, max_groups)
    if kind in "KYX":
        ngroups = min(ngroups, 3)
    if ngroups > 6:
        # more than a handful of groups: strictly descending relative frequencies
        counts = sorted({t.between(1, 60) for _ in range(ngroups * 2)}, reverse=True)[:ngroups]
        total = sum(counts) + t.between(0, 9)
        probs = [repr(c / total) for c in counts]
    else:
        probs = _descending_probs(t, pool, ngroups)
    used = set()
    groups = []
    for p in probs:
        size = t.between(1, max_group_size)
        vals = _values_for(t, kind, n, size, used, hostile)
        if vals:
            groups.append([p, vals])
    if hostile and groups and kind in "ADO" and t.chance(1, 12):
        # the first value of the file starts with U+FEFF (content, not a signature: passwords cut out of files that were
        # glued together from "UTF-8 with BOM" pieces)
        groups[0][1][0] = "\ufeff" + groups[0][1][0][1:]
    if not groups:
        groups = [[probs[0], _values_for(t, kind, n, 1, set(), False) or ["a" * n]]]
    if kind == "C" and not any("L" * n in g[1] for g in groups) and t.chance(1, 2):
        pass
    return groups


VAR_MENU = ["A1", "D1", "A2", "D2", "O1", "A3", "Y1", "X1", "K4", "O2", "D3", "A4"]


def gen_omen(t, small=True, safe=True):
    """A synthetic OMEN model.  Levels are drawn from small sets so that the
    enumeration of a level stays small."""
    ngram = t.choice([2, 3, 4, 5]) if not small else t.choice([2, 3, 2, 4])
    asize = t.between(2, 3 if ngram >= 4 else 4)
    alphabet = list("abcd"[:asize])
    if t.chance(1, 10):
        alphabet[-1] = "é"
    density = t.choice(["dense", "sparse", "deadend"])
    level_pool = t.choice([[0, 1, 2], [0, 1, 2, 3, 5], [1, 2, 10], [0, 10], [0], [2, 3, 4, 7, 10], [0, 6, 8, 9], list(range(11))])
    n1 = ngram - 1
    # all (n-1)-grams
    import itertools
    ctxs = ["".join(p) for p in itertools.product(alphabet, repeat=n1)]
    ip = []
    for c in ctxs:
        if density == "dense" or t.chance(2, 3):
            ip.append([t.choice(level_pool), c])
    if not ip:
        ip.append([t.choice(level_pool), ctxs[0]])
    cp = []
    for c in ctxs:
        if density == "deadend" and t.chance(1, 4):
            continue
        for a in alphabet:
            if density == "dense" or t.chance(2, 3):
                cp.append([t.choice(level_pool), c + a])
    max_len = ngram + t.between(0, 3)
    ln = []
    for length in range(1, max_len + 1):
        ln.append(t.choice(level_pool + [10]) if length >= ngram else 10)
    if all(l == 10 for l in ln[ngram - 1:]) and not t.chance(1, 10):
        ln[ngram - 1] = level_pool[0]
    if safe:
        # level-10-only IP/LN tables are C10's subject (the generator cannot start on them)
        if all(l == 10 for l, _ in ip):
            ip[0][0] = 0
        if all(l == 10 for l in ln[ngram - 1:]):
            ln[ngram - 1] = 0
    ep = [[0, c] for c in ctxs]
    # the level files have no ordering rule: grouped by prefix (as the trainer writes them), sorted by level (sort -n),
    # or in any order (two files merged)
    order = t.choice(["grouped", "grouped", "by_level", "shuffled"])
    if order == "by_level":
        cp = sorted(cp, key=lambda x: x[0])
        ip = sorted(ip, key=lambda x: x[0])
    elif order == "shuffled":
        cp = t.shuffle(cp)
        ip = t.shuffle(ip)
    return {"ngram": ngram, "alphabet": alphabet, "ip": ip, "cp": cp, "ep": ep, "ln": ln,
            "encoding": "utf-8", "line_order": order, "eol": "\r\n" if t.chance(1, 6) else "\n"}


TRIVIAL_OMEN = {"ngram": 2, "alphabet": ["a", "b"], "ip": [[0, "a"], [1, "b"]],
                "cp": [[0, "aa"], [1, "ab"], [1, "ba"], [2, "bb"]],
                "ep": [[0, "a"], [0, "b"]], "ln": [10, 0, 1], "encoding": "utf-8"}


def gen_syn(t, allow_m=True, max_pts=600, hostile=False, force_m=False, omen=None,
            pools=None, max_structs=4, max_vars=4, menu=None, big=False):
    """Synthetic ruleset spec."""
    pool = t.choice(pools or POOL_NAMES)
    nvars = t.between(1, 6)
    if big:
        # variables with 11-14 groups (two-digit group indices) and label pairs such as D2 / D21, A1 / A11
        menu = ["D2", "D21", "A1", "A11", "D1", "D12", "O1", "O11"]
        nvars = t.between(2, 4)
    names = []
    for _ in range(nvars):
        v = (menu or VAR_MENU)[t.draw(len(menu or VAR_MENU))]
        if v not in names:
            names.append(v)
    variables = {}
    for v in names:
        variables[v] = gen_variable(t, v, pool, hostile=hostile, max_groups=14 if (big and v[0] in "DO" and len(v) == 2) else 4)
        if v[0] == "A":
            variables["C" + v[1:]] = gen_variable(t, "C" + v[1:], pool, max_groups=3, max_group_size=2)
    has_m = force_m or (allow_m and t.chance(1, 3))
    nstruct = t.between(1, max_structs)
    base_probs_pool = pool
    structs = []
    size = 0
    for _ in range(nstruct):
        k = t.between(1, max_vars)
        reps = [names[t.draw(len(names))] for _ in range(k)]
        # language size of this structure
        n = 1
        for r in reps:
            n *= len(variables[r])
            if r[0] == "A":
                n *= len(variables["C" + r[1:]])
        if size + n > max_pts:
            reps = reps[:1]
            n = len(variables[reps[0]]) * (len(variables["C" + reps[0][1:]]) if reps[0][0] == "A" else 1)
        size += n
        structs.append("".join(reps))
    if t.chance(1, 6) and structs:
        structs.append(structs[0])          # duplicate base structure line
    probs_src = _descending_probs(t, {"tiny": "mixed", "longtail": "decimal", "ulp": "decimal"}.get(base_probs_pool, base_probs_pool), min(4, len(structs)))
    base = []
    for i, s in enumerate(structs):
        base.append([s, probs_src[min(i, len(probs_src) - 1)] if not t.chance(1, 5) else probs_src[t.draw(len(probs_src))]])
    mprob = None
    if has_m:
        pos = t.draw(len(base) + 1)
        mp = t.choice(["0.4", "0.25", "0.5", "0.1", "0.0625", "3.999999999998545e-05", "1e-05"])
        base.insert(pos, ["M", mp])
    # base structure files are written most probable first
    base.sort(key=lambda x: -float(x[1]))
    spec = {
        "kind": "syn", "pool": pool, "encoding": "utf-8",
        "uuid": "00000000-0000-4000-8000-%012d" % t.draw(1000),
        "vars": variables, "base": base,
        "omen": omen or TRIVIAL_OMEN,
        "omen_prob": None, "omen_keyspace": None,
    }
    if has_m or t.chance(1, 4):
        # levels above 10 exist in trained rulesets (length level + initial level + transitions): with a synthetic
        # model they are drawn too, so that budgets of more than 10 levels get spread over several transitions
        hi = 18 if (omen is not None and t.chance(1, 3)) else 4
        lv = sorted({t.between(0, hi) for _ in range(t.between(1, 3))})
        if len(lv) >= 2 and t.chance(1, 2):
            # the trainer lists levels by descending probability, which need not be ascending level number (a small list
            # often has level 3 more probable per guess than level 2)
            lv = t.shuffle(lv)
        pp = _descending_probs(t, "dyadic" if pool in ("tiny", "longtail", "ulp") else pool, len(lv))
        if len(pp) >= 2 and t.chance(1, 6):
            pp[1] = pp[0]               # two Markov levels of exactly equal probability form one group
        spec["omen_prob"] = [[str(l), p] for l, p in zip(lv, pp)]
    return spec


def normalise(t, spec):
    """make every list a relative-frequency list, as the trainer writes them: item probability =
    count/total, so sum(prob * len(values)) == 1 per variable and the base structures sum to 1"""
    for var, groups in spec["vars"].items():
        k = len(groups)
        counts = sorted({t.between(1, 9) for _ in range(k)}, reverse=True)
        while len(counts) < k:
            counts.insert(0, counts[0] + t.between(1, 4))
        total = sum(c * len(g[1]) for c, g in zip(counts, groups))
        for c, g in zip(counts, groups):
            g[0] = repr(c / total)
    base = spec["base"]
    counts = sorted((t.between(1, 9) for _ in base), reverse=True)
    total = sum(counts)
    for c, b in zip(counts, base):
        b[1] = repr(c / total)
    if spec.get("omen_prob"):
        k = len(spec["omen_prob"])
        counts = sorted({t.between(1, 9) for _ in range(k)}, reverse=True)
        while len(counts) < k:
            counts.insert(0, counts[0] + 1)
        total = sum(counts)
        for c, e in zip(counts, spec["omen_prob"]):
            e[1] = repr(c / total)
    spec["pool"] = "relative-frequency"
    return spec


def _write(path, text, encoding="utf-8"):
    os.makedirs(os.path.dirname(path), exist_ok=True)
    with open(path, "wb") as f:
        f.write(text.encode(encoding, errors="surrogateescape"))


DIRS = {"A": ("BASE_A", "Alpha"), "D": ("BASE_D", "Digits"), "O": ("BASE_O", "Other"),
        "K": ("BASE_K", "Keyboard"), "X": ("BASE_X", "Context"), "Y": ("BASE_Y", "Years"),
        "C": ("CAPITALIZATION", "Capitalization")}


def _spell(p, j, mode):
    """another decimal spelling of the same double for the j-th member of a group (mode set per world)"""
    if not mode or j == 0:
        return p
    f = float(p)
    cands = [p]
    if "e" not in p.lower():
        cands.append(p + "0")
    cands.append("%.17e" % f)
    cands.append(repr(f))
    alt = cands[(j + mode) % len(cands)]
    return alt if float(alt) == f else p


def write_omen(omen, odir, keyspace=None, prob=None, encoding=None):
    enc = encoding or omen.get("encoding", "utf-8")
    _write(os.path.join(odir, "config.txt"),
           "[training_settings]\nngram = %d\nencoding = %s\n\n" % (omen["ngram"], enc), "ascii")
    _write(os.path.join(odir, "alphabet.txt"), "".join(a + "\n" for a in omen["alphabet"]), enc)
    eol = omen.get("eol", "\n")          # (a Windows checkout or editor: CRLF line ends in the level files)
    _write(os.path.join(odir, "IP.level"), "".join("%d\t%s%s" % (l, g, eol) for l, g in omen["ip"]), enc)
    _write(os.path.join(odir, "EP.level"), "".join("%d\t%s%s" % (l, g, eol) for l, g in omen["ep"]), enc)
    _write(os.path.join(odir, "CP.level"), "".join("%d\t%s%s" % (l, g, eol) for l, g in omen["cp"]), enc)
    _write(os.path.join(odir, "LN.level"), "".join("%d\n" % l for l in omen["ln"]), "ascii")
    ks = keyspace if keyspace is not None else [[str(l), "1"] for l in range(0, 19)]
    _write(os.path.join(odir, "omen_keyspace.txt"), "".join("%s\t%s\n" % (a, b) for a, b in ks), enc)
    _write(os.path.join(odir, "pcfg_omen_prob.txt"), "".join("%s\t%s\n" % (a, b) for a, b in (prob or [])), enc)


def write_ruleset(spec, directory):
    enc = spec.get("encoding", "utf-8")
    for sub in ("Grammar", "Prince", "Alpha", "Capitalization", "Digits", "Other", "Keyboard",
                "Years", "Context", "Emails", "Websites", "Omen", "Masks"):
        os.makedirs(os.path.join(directory, sub), exist_ok=True)
    files = {k: [] for k in DIRS}
    for var, groups in spec["vars"].items():
        kind, n = var[0], var[1:]
        sec, sub = DIRS[kind]
        fn = n + ".txt"
        files[kind].append(fn)
        text = "".join("%s\t%s\n" % (v, _spell(p, j, spec.get("spell"))) for p, vals in groups for j, v in enumerate(vals))
        _write(os.path.join(directory, sub, fn), text, enc)
    for kind in ("X", "Y"):
        if "1.txt" not in files[kind]:
            _write(os.path.join(directory, DIRS[kind][1], "1.txt"), "", enc)
        files[kind] = ["1.txt"]
    _write(os.path.join(directory, "Emails", "email_providers.txt"), "", enc)
    _write(os.path.join(directory, "Websites", "website_hosts.txt"), "", enc)
    _write(os.path.join(directory, "Websites", "website_prefixes.txt"), "", enc)
    _write(os.path.join(directory, "Grammar", "grammar.txt"),
           "".join("%s\t%s\n" % (s, p) for s, p in spec["base"]), "ascii")
    _write(os.path.join(directory, "Grammar", "raw_grammar.txt"),
           "".join("%s\t%s\n" % (s, p) for s, p in spec["base"]), "ascii")
    _write(os.path.join(directory, "Prince", "grammar.txt"),
           "".join("%s\t%s\n" % (s, p) for s, p in spec.get("prince", [])), "ascii")
    write_omen(spec["omen"], os.path.join(directory, "Omen"),
               keyspace=spec.get("omen_keyspace"), prob=spec.get("omen_prob"), encoding=enc)
    cfg = []
    cfg.append("[TRAINING_PROGRAM_DETAILS]\ncontact = x\nauthor = x\nprogram = PCFG Trainer\nversion = 4.7\n")
    cfg.append("[TRAINING_DATASET_DETAILS]\ncomments = \nfilename = syn.txt\nencoding = %s\nuuid = %s\n"
               "number_of_passwords_in_set = 1\nnumber_of_encoding_errors = 0\n" % (enc, spec["uuid"]))
    cfg.append("[START]\nname = Base Structure\nfunction = Transparent\ndirectory = Grammar\nfile_type = Flat\n"
               "inject_type = Wordlist\nis_terminal = False\nfilenames = [\"grammar.txt\"]\n")
    for kind, (sec, sub) in DIRS.items():
        cfg.append("[%s]\nname = %s\nfunction = Copy\ndirectory = %s\nfile_type = Length\ninject_type = Copy\n"
                   "is_terminal = True\nfilenames = %s\n" % (sec, kind, sub, json.dumps(files[kind])))
    _write(os.path.join(directory, "config.ini"), "\n".join(cfg), "ascii")


def spec_summary(spec):
    """short rendering for evidence samples"""
    return {"pool": spec.get("pool"), "base": spec["base"],
            "vars": {k: [[p, v] for p, v in g] for k, g in spec["vars"].items()},
            "omen_prob": spec.get("omen_prob"),
            "omen": spec.get("omen") if spec.get("omen") is not TRIVIAL_OMEN else "trivial"}
