"""Session harness: runs ``pcfg_guesser.main()`` (the whole process image: banner,
argument parsing, loader, save-file handling, CrackingSession.run) in-process on the
worker's scratch disk, with the keyboard thread replaced by a *stand-in* that delivers
the user's quit at an exact stream position, and with clocks virtualised.

The quit is the property's fault: it fires either inside the k-th ``PcfgQueue.next()``
(``('pop', k)``: the user asked while pre-terminal k-1 was being expanded and the loop
notices after popping the k-th) or right after the g-th guess line was written
(``('guess', g)``: lands inside an OMEN level when g falls there).  Firing sets
``pcfg.should_exit`` and ends the stand-in thread together, which is what a real 'q'
does once the thread has run to its return.

Observation seams (installed once per process, from outside, passthrough when idle):
``cracking_session.PcfgQueue`` is a recording subclass, ``PcfgGrammar.create_guesses``
is wrapped to bracket the lines of each pre-terminal.
"""

import datetime as _real_datetime
import os
import sys

from . import guesser, scratch

_CUR = [None]          # current SessionCtx
DEFAULT_KNOBS = {}     # per-run tuning knobs that apply to every process image of the run (set by the check's run_one)
QUEUE_SIZES = [None, None, None, 3, 10, 40, 200]


def draw_queue_knob(t):
    """PcfgQueue.max_queue_size ("the maximum number of items before trimming the queue") is a tuning parameter of the
    class (default 50 000, which no small world reaches): drawn per run so that nothing silently depends on it"""
    DEFAULT_KNOBS["max_queue_size"] = t.choice(QUEUE_SIZES)
    return DEFAULT_KNOBS["max_queue_size"]
_INSTALLED = [False]


class SimClock:
    """virtual seconds; the only clock the session reads"""

    def __init__(self, start=0.0):
        self.now = start
        self.sleeps = 0

    def sleep(self, s):
        self.sleeps += 1
        self.now += s

    def perf_counter(self):
        return self.now

    def time(self):
        return 1.7e9 + self.now

    def monotonic(self):
        return self.now


class FakeDatetimeModule:
    """stands in for the ``datetime`` module (only datetime.datetime.now() is used)"""

    def __init__(self, clock):
        outer = self

        class _DT:
            @staticmethod
            def now():
                return _real_datetime.datetime(2026, 1, 1) + _real_datetime.timedelta(seconds=clock.now)
        self.datetime = _DT
        self.timedelta = _real_datetime.timedelta


class GuessCap(Exception):
    """harness guard: the scripted quit never fired (the run is void, not a violation)"""


class RestoreWorkLimit(Exception):
    """deterministic work bound on the restore walk (counted node visits, not wall time)"""


class SessionCtx:
    def __init__(self, trigger=None, knobs=None):
        self.restore_calls = 0
        self.trigger = trigger          # None | ('start',) | ('pop', k) | ('guess', g)
        self.knobs = knobs or {}
        self.fired = False
        self.fired_at = None            # (pops, guesses) when the quit fired
        self.fired_in = None            # 'omen' | 'remainder' | None: what was being generated
        self.pcfg = None
        self.pops = []                  # every item returned by PcfgQueue.next() (incl. None)
        self.expansions = []            # (pt tuple, first line index, ret or None)
        self.nlines = 0                 # guesses handed to print_guess so far (the seam, not the stdout buffer)
        self.guesses = []               # those guesses
        self.stdout_lines = 0           # lines that actually reached the stdout seam
        self.clock = SimClock()
        self.cost_per_guess = 0.0
        self.thread_started = False
        self.alive_calls = 0
        self.restore_omen_calls = []
        self.saves = 0
        import collections as _c
        self.kbd_faults = _c.Counter()
        self.should_exit_set_at = None  # (step, lines written) when pcfg.should_exit became True
        self.omen_count = 0             # M expansions started in this cycle
        self.omen_start = None          # line count when the current M expansion / remainder began
        self.in_remainder = False

    # called by the seams ------------------------------------------------
    def fire(self):
        if self.fired:
            return
        self.fired = True
        self.fired_at = (len(self.pops), self.nlines)
        self.fired_in = "remainder" if self.in_remainder else ("omen" if self.omen_start is not None else None)
        if self.pcfg is not None:
            self.pcfg.should_exit = True

    def on_pop(self, item):
        self.pops.append(item)
        if self.trigger and self.trigger[0] == "pop" and len(self.pops) == self.trigger[1] and item is not None:
            self.fire()

    def on_line(self, n):
        self.stdout_lines = n

    def on_guess(self, guess):
        self.guesses.append(guess)
        n = self.nlines = len(self.guesses)
        cap = self.knobs.get("guess_cap")
        if cap is not None and n > cap:
            raise GuessCap("more than %d guesses before the scripted quit point was reached" % cap)
        self.clock.now += self.cost_per_guess
        tr = self.trigger
        if not tr:
            return
        if tr[0] == "guess" and n == tr[1]:
            self.fire()
        elif tr[0] == "remainder" and self.in_remainder and n - self.omen_start == tr[1]:
            self.fire()
        elif tr[0] == "omen" and not self.in_remainder and self.omen_start is not None \
                and self.omen_count == tr[1] and n - self.omen_start == tr[2]:
            self.fire()


class StandInThread:
    def __init__(self, ctx, target, args):
        self.ctx = ctx
        self.daemon = False
        self.args = args
        if len(args) >= 2:
            ctx.pcfg = args[1]

    def start(self):
        ctx = self.ctx
        ctx.thread_started = True
        k = ctx.knobs.get("optimizer_max_length")
        if k is not None and ctx.pcfg is not None:
            from lib_guesser.omen.optimizer import Optimizer
            ctx.pcfg.omen_optimizer = Optimizer(max_length=k)
        if ctx.trigger and ctx.trigger[0] == "start":
            ctx.fire()

    def is_alive(self):
        self.ctx.alive_calls += 1
        return not self.ctx.fired

    def join(self, timeout=None):
        pass


class StandInThreading:
    def __init__(self, ctx):
        self.ctx = ctx

    def Thread(self, target=None, args=(), **kw):
        return StandInThread(self.ctx, target, args)

    def main_thread(self):
        class _M:
            @staticmethod
            def is_alive():
                return True
        return _M


def watch_should_exit(pcfg, ctx, sim=None):
    """make the moment ``pcfg.should_exit`` becomes true observable (from outside)"""
    cls = pcfg.__class__
    if getattr(cls, "_pcfgsim_watched", False):
        return

    class Watched(cls):
        _pcfgsim_watched = True

        @property
        def should_exit(self):
            return self.__dict__["_se"]

        @should_exit.setter
        def should_exit(self, v):
            self.__dict__["_se"] = v
            if v and ctx.should_exit_set_at is None:
                ctx.should_exit_set_at = (sim.step if sim is not None else None, ctx.nlines,
                                          ctx.omen_start is not None or ctx.in_remainder)

    pcfg.__dict__["_se"] = pcfg.__dict__.pop("should_exit", False)
    pcfg.__class__ = Watched


def install():
    """observation seams; idempotent; passthrough when no session is current"""
    if _INSTALLED[0]:
        return
    import lib_guesser.cracking_session as cs
    import lib_guesser.pcfg_grammar as pg
    from lib_guesser.priority_queue import PcfgQueue

    class RecordingQueue(PcfgQueue):
        def __init__(self, *a, **kw):
            PcfgQueue.__init__(self, *a, **kw)
            ctx = _CUR[0]
            size = (ctx.knobs.get("max_queue_size") if ctx is not None else None) or DEFAULT_KNOBS.get("max_queue_size")
            if size:
                self.max_queue_size = size

        def next(self):
            item = PcfgQueue.next(self)
            ctx = _CUR[0]
            if ctx is not None:
                ctx.on_pop(item)
            return item

    cs.PcfgQueue = RecordingQueue
    _INSTALLED.append(RecordingQueue)
    orig_create = pg.PcfgGrammar.create_guesses

    def create_guesses(self, pt, is_honeyword=False, limit=None):
        ctx = _CUR[0]
        if ctx is None:
            return orig_create(self, pt, is_honeyword, limit)
        rec = [tuple(tuple(x) for x in pt), ctx.nlines, None]
        ctx.expansions.append(rec)
        is_m = len(pt) == 1 and pt[0][0] == "M"
        stub = ctx.knobs.get("stub_expansion")
        if stub is True or (stub == "non_markov" and not is_m):
            # large shipped rulesets: the pre-terminal is recorded, its (up to millions of) guesses are not generated
            rec[2] = 0
            return 0
        if is_m:
            ctx.omen_count += 1
            ctx.omen_start = ctx.nlines
        try:
            ret = orig_create(self, pt, is_honeyword, limit)
        finally:
            if is_m:
                ctx.omen_start = None
        rec[2] = ret
        return ret

    pg.PcfgGrammar.create_guesses = create_guesses
    orig_print = pg.PcfgGrammar.print_guess

    def print_guess(self, guess):
        r = orig_print(self, guess)
        ctx = _CUR[0]
        if ctx is not None:
            ctx.on_guess(guess)
        return r

    pg.PcfgGrammar.print_guess = print_guess
    orig_restore = pg.PcfgGrammar.restore_omen

    def restore_omen(self, omen_guess_num, pt_item, *a, **kw):
        ctx = _CUR[0]
        if ctx is None:
            return orig_restore(self, omen_guess_num, pt_item, *a, **kw)
        call = [omen_guess_num, ctx.nlines, None]
        ctx.restore_omen_calls.append(call)
        ctx.in_remainder = True
        ctx.omen_start = ctx.nlines
        try:
            return orig_restore(self, omen_guess_num, pt_item, *a, **kw)
        finally:
            ctx.in_remainder = False
            ctx.omen_start = None
            call[2] = ctx.nlines

    pg.PcfgGrammar.restore_omen = restore_omen
    import lib_guesser.omen.markov_cracker as mcm
    orig_next = mcm.MarkovCracker.next_guess

    def next_guess(self):
        g = orig_next(self)
        ctx = _CUR[0]
        if g is None and ctx is not None and ctx.trigger and ctx.trigger[0] == "level_end" and (
                ctx.in_remainder or ctx.omen_start is not None):
            # the user asks to quit while the generator is finding out that the level has no further string: after the
            # last guess passed its exit check, before the loop sees the end
            ctx.fire()
        return g

    mcm.MarkovCracker.next_guess = next_guess
    orig_rec = pg.PcfgGrammar._recursive_restore_prob_order

    def _recursive_restore_prob_order(self, *a, **kw):
        ctx = _CUR[0]
        if ctx is not None:
            ctx.restore_calls += 1
            lim = ctx.knobs.get("restore_work_limit")
            if lim is not None and ctx.restore_calls > lim:
                raise RestoreWorkLimit("restoring the saved session did not finish within %d node visits" % lim)
        return orig_rec(self, *a, **kw)

    pg.PcfgGrammar._recursive_restore_prob_order = _recursive_restore_prob_order
    _INSTALLED[0] = True


class SessionResult:
    pass


def run_main(argv, ctx, threading_obj=None, input_fn=None, out=None, keep_err=False, time_obj=None):
    """pcfg_guesser.main() with seams.  Returns SessionResult."""
    import pcfg_guesser
    import lib_guesser.cracking_session as cs
    import lib_guesser.status_report as sr
    install()
    wr = scratch.worker_root()
    scratch.point_tools_at(wr, ("pcfg_guesser",))
    out = out or guesser.LineRecorder()
    out.on_line = ctx.on_line
    err = guesser.Sink(keep=keep_err)
    if ctx.knobs.get("kbd_stderr_fault"):
        err = guesser.KbdFaultySink(*ctx.knobs["kbd_stderr_fault"])
        ctx.stderr_sink = err
    fake_dt = FakeDatetimeModule(ctx.clock)
    saved = (sys.argv, cs.threading, cs.time, sr.time, sr.datetime, pcfg_guesser.datetime,
             cs.__dict__.get("input"))
    sys.argv = ["pcfg_guesser.py"] + list(argv)
    cs.threading = threading_obj or StandInThreading(ctx)
    cs.time = time_obj or ctx.clock
    sr.time = time_obj or ctx.clock
    sr.datetime = fake_dt
    pcfg_guesser.datetime = fake_dt
    if input_fn is not None:
        cs.input = input_fn
    r = SessionResult()
    r.exc = None
    r.exit_code = None
    _CUR[0] = ctx
    try:
        with guesser.streams(out, err):
            try:
                pcfg_guesser.main()
            except SystemExit as e:
                r.exit_code = e.code
    except BaseException as e:      # noqa  (harness timeouts must propagate)
        if e.__class__.__name__ == "HarnessTimeout":
            raise
        import traceback
        r.exc = traceback.format_exc()
    finally:
        _CUR[0] = None
        sys.argv, cs.threading, cs.time, sr.time, sr.datetime, pcfg_guesser.datetime = saved[:6]
        if saved[6] is None:
            cs.__dict__.pop("input", None)
        else:
            cs.input = saved[6]
    r.stdout = out.text()
    r.stderr = err.text()
    r.lines = guesser.split_lines(r.stdout)
    r.ctx = ctx
    return r


def recording_queue_class():
    install()
    return _INSTALLED[1]


def emitted_preterminals(ctx):
    """[(pt, prob, base_prob, first_line, n_lines_or_None)] for pre-terminals that were expanded"""
    by_pt = []
    pops = [p for p in ctx.pops if p is not None]
    # expansions happen in pop order; a popped item that was not expanded is the one at the quit
    out = []
    j = 0
    for rec in ctx.expansions:
        pt = rec[0]
        while j < len(pops) and tuple(tuple(x) for x in pops[j]["pt"]) != pt:
            j += 1
        if j < len(pops):
            out.append({"pt": pt, "prob": pops[j]["prob"], "base_prob": pops[j]["base_prob"],
                        "first_line": rec[1], "ret": rec[2]})
            j += 1
        else:
            out.append({"pt": pt, "prob": None, "base_prob": None, "first_line": rec[1], "ret": rec[2]})
    return out


def read_sav(path):
    import configparser
    c = configparser.ConfigParser()
    with open(path) as f:
        c.read_file(f)
    return {s: dict(c.items(s)) for s in c.sections()}
