"""Source of MANIFEST.json (bin/gen_manifest)."""

SETUP_CMD = "/venv/bin/python -m compileall -q pcfgsim && bin/selftest quick"

HOOKS = {
    "guard": "PCFG_VERIF",
    "enable": "no source hook is needed: every seam is installed from outside by assigning module attributes "
              "(threading/time/input/open/random/uuid) on the scratch copy of the working tree; PCFG_VERIF is reserved",
    "baseline_off_cmd": "cd /repo && /venv/bin/python -m pytest -ra -q -p no:cacheprovider --timeout=900 --continue-on-collection-errors",
    "source_commits": [],
    "add_only": True,
}

NOTES = ("All checks: bin/check <ID> --tier quick|thorough; exit 0 held / 1 VIOLATION / 2 HARNESS-ERROR / 3 replay not reproduced. "
         "Checks copy /repo's working tree (*.py) to tmpfs and import it from there; nothing is written under /repo.")

_TB = ("trusted: the reference models in pcfgsim/refmodel.py, the tape/replay machinery, CPython; sampled (seeded) exploration, "
       "not exhaustive")

CHECKS = {
    "C01": {"level": "exploration", "technique": "seeded deterministic simulation of the guesser over generated rulesets; per-pop order/product monitor against a reference model",
            "text": "Seeded simulation runs of the real loader + priority queue to exhaustion over tie-heavy/dyadic/denormal synthetic rulesets and all flag combinations; every pop checked for order, probability = exact product, and repeatability.",
            "note": _TB + "; no schedule or fault enters this property (DESIGN §2): the simulator contributes the seeded, replayable whole-program run and the fresh-interpreter phase under other hash seeds"},
    "C02": {"level": "exploration", "technique": "seeded deterministic simulation; multiset refinement against the reference language plus per-pop queue-state invariants (closure, nothing above the last pop)",
            "text": "Same simulated runs; the emitted multiset equals the reference language, and after every pop (languages up to 600, no duplicate base lines) every not-yet-emitted derivation must still be a successor of some queued entry and no queued entry may exceed the last pop, so a lost sub-tree is localised to the pop that lost it; duplicates in the queue are counted as probes only.",
            "note": _TB + "; no schedule or fault enters this property (DESIGN §2)"},
    "C04": {"level": "exploration", "technique": "seeded deterministic simulation with a recording stdout seam; per-pre-terminal expansion compared with the reference model",
            "text": "Per pre-terminal the lines actually written to the stdout seam are compared with the reference cartesian expansion (masks, adjacent alpha words, hostile values) or the reference OMEN level, and the reported count with the lines written.",
            "note": _TB + "; no schedule or fault enters this property (see DESIGN §2, fit W)"},
    "C08": {"level": "fault_enumeration", "technique": "deterministic simulation of quit/resume histories (process restarts with only the save file surviving); quit point enumerated over every pop in the thorough tier; RefResume oracle",
            "text": "Every cycle re-enters pcfg_guesser.main() as a new process image on the scratch disk; the quit (the property's crash point) is injected after the k-th pop: every k of every world with at most 24 pre-terminals plus 5 sampled multi-cycle histories (quick), every k of every world plus 8 sampled histories (thorough); the history is judged against the uninterrupted run: nothing lost, order kept, nothing above the saved probability, repeats only at exactly the saved probability, uuid mismatch refused; histories include a quit that is already pending when a process starts or restores.",
            "note": _TB + "; the keyboard thread is a stand-in here (its scheduling is C12); flags are repeated on --load (C14 covers flags-from-save)"},
    "C15": {"level": "fault_enumeration", "technique": "deterministic simulation of quit/resume histories with the quit injected after the j-th guess of a Markov level (every j in the thorough tier), restart with only .sav/.omn surviving, cache-size knob per process",
            "text": "Quit inside a Markov level at every position j of one level of up to 24 strings per world (quick) or of the first three levels, every j up to 80 strings and 80 strided positions plus both ends beyond (thorough), plus sampled positions incl. first/last, resume in a fresh process image with an empty memo table and an independently drawn optimizer size, followed by sampled tails (quit at a pop, inside the restored remainder, inside a later level); oracle: the restored remainder is exactly the missing strings, is never replayed later, and the rest of the run satisfies the C08 oracle.",
            "note": _TB + "; each cycle re-enters main() in the same interpreter with fresh grammar/queue/session/optimizer objects"},
    "C12": {"level": "exploration", "technique": "deterministic simulation: real keypress thread under a seeded baton scheduler (PCT priorities/change points at traced source lines), virtual clock, scripted stdin faults; prefix/refinement oracle against the uninterrupted run",
            "text": "The real keyboard thread runs on a real OS thread but only while holding the scheduler's baton; every interleaving decision, stdin event (status/help/junk/quit/EOF/closed/lost/EIO/undecodable/silent), sleep and clock reading is the simulator's. A third of the cases are directed: the thread is parked right before it sets the quit flag and released exactly when the generation loop reaches a drawn labelled program point, so the quit lands at every kind of boundary; a quarter of the runs schedule a process that resumed a session interrupted inside a Markov level; a quarter of the thorough runs place a thread death (EOF / closed / EIO) at about 60 evenly spaced guess indices of one world. Oracle: without an effective quit the stream equals the uninterrupted one; with one it is a prefix cut at a legal point no later than the end of the pre-terminal current when the flag was set, with a save file from which the rest resumes exactly; under a fair (directed) schedule a delivered 'q' must become effective.",
            "note": _TB + "; pre-emption granularity = source lines of the session code and seam calls; tty/SIGINT not modelled; assumes an explicit quit takes effect by the end of the current pre-terminal (what the tool announces)"},
    "C09": {"level": "exploration", "technique": "deterministic simulation of whole process images (main() with argv) with recording stdout/stderr seams, injected save-file I/O errors, scheduled keyboard thread, seeded RNG seam; validated against real subprocesses",
            "text": "Whole pcfg_guesser.main() process images on the scratch disk; stdout text must equal the guesses recorded at the print_guess seam, byte for byte, and --limit N output must be the first min(N,total) lines for N at/around group and Markov-level boundaries; faults: failing .sav writes, status/help requests from the real scheduled thread (also in resumed processes), clock jumps up to days per guess, quit + --load --limit against --load without limit from the same saved state; honeyword modes with the simulator's RNG.",
            "note": _TB + "; in-process capture is cross-checked against 6 real `python pcfg_guesser.py` processes per invocation"},
    "C14": {"level": "exploration", "technique": "deterministic simulation of four process images over one scratch ruleset plus a quit/restart history in which the flags survive only in the save file; restriction oracle from the reference model",
            "text": "Default, --skip_brute, --all_lower and both are run as whole process images over the same ruleset (Markov structure first/middle/last/absent/alone); the restricted streams are compared with the reference restriction (rescaled probabilities, order, guesses), and a flagged session is quit at a drawn pop and resumed with --load and no flags in a new process image, judged by RefResume.",
            "note": _TB + "; order among (approximately) equal probabilities is not compared"},
    "C10": {"level": "exploration", "technique": "deterministic simulation of generator-operation histories over one shared memo table (stateful cache), cache-size knob per run, RefOmen as reference model",
            "text": "The real MarkovCracker/GuessStructure/Optimizer over synthetic and trainer-written models: each level with a fresh cache against RefOmen, then a drawn history of interleaved/suspended/repeated generators sharing one Optimizer whose size is drawn from 0..6; every generator's multiset must equal the reference regardless of what the cache held.",
            "note": _TB + "; levels above 20000 strings (3000 beyond level 8) or a cumulative 20000 per model are skipped; a deterministic call counter bounds the real generator"},
    "C11": {"level": "exploration", "technique": "seeded multi-party simulation over one scratch disk: trainer (live model), scorer (loaded from disk) and guesser (enumerating generator) evaluated on the same candidates",
            "text": "The real trainer writes a ruleset; the live trainer model, the scorer's own OMEN loader and the guesser's loader+generator are run on the same disk in one replayable process and must give every candidate string the same level (or all refuse); the per-level count file must equal the tally.",
            "note": _TB + "; no schedule or fault enters this property (DESIGN §2, fit W); guesser enumeration bounded to 15000 strings per ruleset"},
    "C18": {"level": "exploration", "technique": "seeded multi-party simulation over one scratch disk: trainer-written keyspace/probability files against the guesser's generator and RefOmen",
            "text": "For every level the trainer lists (within the enumeration cap) the saved keyspace must equal the number of distinct strings the real generator emits and the reference count, and the saved level probability must equal (passwords at level / N) / keyspace.",
            "note": _TB + "; no schedule or fault enters this property (fit W); levels above 8000 strings are skipped"},
    "C05": {"level": "exploration", "technique": "seeded simulation of trainer runs and of detector-training histories (stateful multi-word detector) with an invariant monitor (RefSeg) on every parse and a tally refinement check on the counters",
            "text": "Every parse of simulated training runs, and of generated histories of MultiWordDetector.train/pretrain/parse calls in varying order, is checked against label-soundness predicates and a plain Counter fed with the same history; the parser's counters must equal the tallies of the captured segmentations.",
            "note": _TB + "; history = detector training order only; no fault enters (fit W); one known finding keyed to passwords containing U+0130"},
    "C06": {"level": "exploration", "technique": "seeded simulation of training runs on a scratch disk; saved bytes against a reference tally; determinism under changed environment (stale ruleset in the target directory, other uuid, fresh interpreters under other hash seeds)",
            "text": "After every simulated training the bytes on disk are compared with the relative-frequency model recomputed from the captured segmentations (incl. the Markov pseudo-count for every coverage); the same list is then trained into a directory that still holds a different older ruleset and, in fresh interpreters under other PYTHONHASHSEED values, must give byte-identical trees except the uuid.",
            "note": _TB},
    "C07": {"level": "exploration", "technique": "seeded multi-party simulation over one scratch disk: one writer (trainer) and five readers, hostile code points and all supported encodings, byte-level reference reader",
            "text": "Rulesets trained from lists containing every white-space / line-break-like code point in every supported encoding are read back by the guesser loader, scorer loader, guesser OMEN loader, OmenScorer and keyspace loader; each must return exactly what a byte-level LF/TAB reader returns, and config.ini must list exactly the files present.",
            "note": _TB + "; no schedule or fault enters (fit M: multi-party via storage)"},
    "C19": {"level": "exploration", "technique": "seeded simulation with fault injection on the training file (junk lines, undecodable bytes, unterminated last line, random byte flips) across equivalent encodings; pass-by-pass comparison and ruleset byte comparison",
            "text": "One logical list is rendered as plain / $HEX[] / count-prefixed / CRLF files with injected junk; all three passes of every variant must yield exactly the list and the rulesets must be byte-identical; random byte flips must not abort training, desynchronise the passes or leak forbidden characters into the ruleset.",
            "note": _TB + "; the faults are byte-level corruptions of the input file (junk lines, undecodable bytes, flips) applied before a run, nothing fails during a run; fragments produced by codec line splitting are counted, not judged"},
    "C03": {"level": "exploration", "technique": "seeded multi-party simulation over one scratch disk: trainer -> ruleset bytes -> guesser run to exhaustion, reproduction and mass-conservation oracle",
            "text": "The real trainer and the real guesser (skip_brute) are run back to back over the scratch disk for generated lists x coverage x n-gram x alphabet x encoding; every supported training password must be emitted and probability x guesses must sum to 1.",
            "note": _TB + "; no schedule or fault enters (fit W); languages above 60000 guesses are skipped"},
    "C13": {"level": "exploration", "technique": "seeded multi-party simulation over one scratch disk (scorer vs guesser) plus a call-history check on the stateful scorer",
            "text": "The real scorer and the real guesser read the same trained ruleset; every candidate with a non-zero score must be in the guesser's output with that probability, e-mail/URL candidates must be classified with probability 0, and re-scoring the candidates in another order after unrelated strings must give identical tuples.",
            "note": _TB + "; fit W apart from the call-history clause; one known finding keyed to letters outside the one-to-one case domain"},
    "C16": {"level": "exploration", "technique": "deterministic simulation with the RNG behind a seam: scripted uniform draws swept over reference break-points and bisected on the real code (measure of each outcome), scripted extreme draw sequences through whole process images",
            "text": "random.random/choice/seed/randint are the simulator's; for every structure and every variable the real random_walk is probed at cell midpoints, 0.0, 1-2^-53 and bisected between cells so the measure of the draw set per outcome is compared with the reference probability; scripted choice indices are compared with the reference expansion; main() in both modes must write exactly N words of the language for extreme draw scripts; random_walk is run twice (and in fresh interpreters under other hash seeds).",
            "note": _TB + "; measure tolerance 1e-9 per cell"},
    "C17": {"level": "exploration", "technique": "seeded simulation of prince_ling process images with two recorded sinks; --size enumerated over every N for small worlds",
            "text": "prince_ling.main() over synthetic (wide tie groups) and trained rulesets; the unbounded list is compared with the reference PRINCE language (order, probability, multiset), the -o file with stdout, and --size N with the first N lines for every N in 1..total+1 on small worlds.",
            "note": _TB + "; no schedule or fault enters (fit W)"},
    "C20": {"level": "exploration", "technique": "seeded simulation of edit_rules process images on a scratch disk with whole-tree before/after snapshots, then the guesser over the edited disk",
            "text": "edit_rules.main() with drawn length/terminal/regex/--copy options; grammar.txt must equal the original lines minus those failing the documented filter, nothing else on the disk may change, --copy must leave the source untouched; the real guesser then runs over the edited ruleset and every guess length is checked against the bounds.",
            "note": _TB + "; no schedule or fault enters (fit W); one known finding keyed to X1 counted as length 1"},
}

_PENDING = "check not built yet in this round (planned: DESIGN.md §6); not claimed until its evidence exists"
NOT_APPLICABLE = {}
