"""Seeded batch runner: fans simulated runs out over worker processes, collects
coverage, minimises and writes replay files, applies known findings, writes the
evidence file and sets the exit code.

Exit codes: 0 held (KNOWN-FINDING lines possible) / 1 VIOLATION / 2 HARNESS-ERROR /
3 replay did not reproduce.
"""

import collections
import concurrent.futures as cf
import faulthandler
import hashlib
import importlib
import json
import multiprocessing
import os
import signal
import sys
import time
import traceback

from . import scratch
from .tape import Tape, minimise

VERIF = os.path.dirname(os.path.dirname(os.path.abspath(__file__)))
OUT = os.environ.get("VERIF_OUT") or VERIF      # where evidence/ and replays/ go (self-tests redirect it)
RUN_WALL_LIMIT = 120          # seconds per simulated run (hang guard)


class HarnessTimeout(BaseException):
    pass


class HarnessError(BaseException):
    """something went wrong in the simulator itself (never a verdict about the repository)"""


_TIMED_OUT = [False]
_HARNESS_FLAG = [None]          # set by simulator components when they raise inside repository code that may swallow it


def flag_harness_error(msg):
    _HARNESS_FLAG[0] = msg


class Violation:
    __slots__ = ("prop", "kind", "key", "detail")

    def __init__(self, prop, kind, detail=None, key=None):
        self.prop = prop
        self.kind = kind          # violation class (stable across minimisation)
        self.key = key            # known-finding key computed from the failing case, or None
        self.detail = detail or {}

    def as_dict(self):
        return {"property": self.prop, "kind": self.kind, "key": self.key, "detail": self.detail}


class RunResult:
    def __init__(self):
        self.violations = []
        self.nontrivial = None        # hashable identity of this case if non-trivial, else None
        self.stats = collections.Counter()   # probes, faults fired, ...
        self.faults = collections.Counter()
        self.sample = None
        self.digest = ""
        self.sim_seconds = 0.0
        self.interleaving = None      # hashable: schedule signature (if a scheduler ran)
        self.shape = None             # hashable: history shape
        self.rejected = None          # reason if the world was outside the property's domain

    def violate(self, prop, kind, detail=None, key=None):
        self.violations.append(Violation(prop, kind, detail, key))


def digest_of(obj):
    return hashlib.sha1(json.dumps(obj, sort_keys=True, default=repr, ensure_ascii=True).encode()).hexdigest()


def run_seed(seed, idx=0):
    return seed * 1000003 + idx


# ---------------------------------------------------------------------------
# worker side

_CHECK = {}


def _alarm(signum, frame):
    _TIMED_OUT[0] = True
    raise HarnessTimeout("".join(traceback.format_stack(frame, limit=14))[-2500:])


def _run_guarded(mod, tape, tier, prop):
    signal.signal(signal.SIGALRM, _alarm)
    _TIMED_OUT[0] = False
    _HARNESS_FLAG[0] = None
    signal.alarm(RUN_WALL_LIMIT)
    try:
        res = mod.run_one(tape, tier, prop)
    finally:
        signal.alarm(0)
    # the repository has bare `except:` clauses that can swallow an exception raised from the alarm handler or from a
    # simulator seam and carry on with a truncated run: such a run is void, whatever it appeared to produce
    if _TIMED_OUT[0]:
        raise HarnessTimeout("the wall-limit alarm fired during this run (and was swallowed by the code under test)")
    if _HARNESS_FLAG[0]:
        raise HarnessError(_HARNESS_FLAG[0])
    return res


def _viol_classes(res, prop):
    return {(v.kind, v.key) for v in res.violations if v.prop == prop}


def _minimise_case(mod, tier, prop, feed, kind, key):
    def still(feed2):
        r = _run_guarded(mod, Tape(feed=feed2), tier, prop)
        return (kind, key) in _viol_classes(r, prop)
    try:
        best, runs = minimise(feed, still, budget_runs=int(os.environ.get("VERIF_MIN_RUNS", "120")),
                              budget_s=float(os.environ.get("VERIF_MIN_S", "25")))
    except (HarnessTimeout, HarnessError):
        best, runs = feed, -1
    return best, runs


def _worker_init():
    """workers must not outlive the parent (SIGTERM/SIGKILL of the check)"""
    try:
        import ctypes
        ctypes.CDLL("libc.so.6", use_errno=True).prctl(1, signal.SIGKILL)      # PR_SET_PDEATHSIG
    except Exception:
        pass


def work_chunk(args):
    modname, prop, tier, seeds, want_sample = args[:5]
    known_keys = set(args[5]) if len(args) > 5 else set()
    faulthandler.dump_traceback_later(RUN_WALL_LIMIT * 3 + 60, exit=True)
    mod = importlib.import_module(modname)
    out = {"n": 0, "stats": collections.Counter(), "faults": collections.Counter(),
           "nontrivial": set(), "interleavings": set(), "shapes": set(), "samples": [],
           "violations": [], "errors": [], "sim_seconds": 0.0, "digests": {}, "rejected": collections.Counter()}
    for seed in seeds:
        tape = Tape(seed=seed)
        try:
            res = _run_guarded(mod, tape, tier, prop)
        except HarnessTimeout as e:
            out["errors"].append({"seed": seed, "error": "run exceeded %ds wall limit; stack at the alarm:\n%s" % (RUN_WALL_LIMIT, e)})
            continue
        except BaseException:       # incl. SystemExit / KeyboardInterrupt raised by the code under test in harness context
            out["errors"].append({"seed": seed, "error": traceback.format_exc()[-3000:]})
            continue
        out["n"] += 1
        out["stats"].update(res.stats)
        out["faults"].update(res.faults)
        out["sim_seconds"] += res.sim_seconds
        out["digests"][seed] = res.digest
        if res.rejected:
            out["rejected"][res.rejected] += 1
        if res.nontrivial is not None:
            out["nontrivial"].add(hashlib.sha1(repr(res.nontrivial).encode()).hexdigest()[:16])
        if res.interleaving is not None:
            out["interleavings"].add(hashlib.sha1(repr(res.interleaving).encode()).hexdigest()[:16])
        if res.shape is not None:
            out["shapes"].add(hashlib.sha1(repr(res.shape).encode()).hexdigest()[:16])
        if want_sample and len(out["samples"]) < 2 and res.sample is not None and not res.rejected:
            out["samples"].append({"seed": seed, "case": res.sample})
        mine = [v for v in res.violations if v.prop == prop]
        seen = set()
        for v in mine:
            cls = (v.kind, v.key)
            if cls in seen:
                continue
            seen.add(cls)
            if len([x for x in out["violations"] if x["violation"].get("key") not in known_keys]) >= 3:
                break
            feed, mruns = list(tape.rec), 0
            if v.key is not None and v.key in known_keys:
                out["violations"].append({"seed": seed, "tape": feed, "orig_tape_len": len(feed), "minimise_runs": 0,
                                          "violation": v.as_dict(), "case": None})
                continue
            if os.environ.get("VERIF_NO_MINIMISE") != "1":
                feed, mruns = _minimise_case(mod, tier, prop, list(tape.rec), v.kind, v.key)
            # re-run the minimised tape to get its decoded rendering
            try:
                r2 = _run_guarded(mod, Tape(feed=feed), tier, prop)
                v2 = [x for x in r2.violations if x.prop == prop and (x.kind, x.key) == cls]
                vv = v2[0] if v2 else v
                sample = r2.sample if v2 else res.sample
                if not v2:
                    feed = list(tape.rec)
            except BaseException:
                vv, sample, feed = v, res.sample, list(tape.rec)
            out["violations"].append({"seed": seed, "tape": feed, "orig_tape_len": len(tape.rec),
                                      "minimise_runs": mruns, "violation": vv.as_dict(),
                                      "case": sample})
    faulthandler.cancel_dump_traceback_later()
    out["nontrivial"] = sorted(out["nontrivial"])
    out["interleavings"] = sorted(out["interleavings"])
    out["shapes"] = sorted(out["shapes"])
    return out


# ---------------------------------------------------------------------------
# parent side

def load_known():
    path = os.path.join(VERIF, "known_findings.json")
    try:
        with open(path) as f:
            return json.load(f)
    except FileNotFoundError:
        return {"known": [], "fixed": []}


def engine_digest():
    """hash of the simulator's sources: a tape is positional, so a replay file belongs to the generator version that wrote it"""
    h = hashlib.sha1()
    root = os.path.join(VERIF, "pcfgsim")
    for dp, dn, fns in sorted(os.walk(root)):
        dn.sort()
        for fn in sorted(fns):
            if fn.endswith(".py") and fn not in ("mutants.py", "manifest_data.py"):
                h.update(fn.encode())
                h.update(open(os.path.join(dp, fn), "rb").read())
    return h.hexdigest()[:16]


def write_replay(prop, seed, payload):
    payload = dict(payload, engine_digest=engine_digest())
    os.makedirs(os.path.join(OUT, "replays"), exist_ok=True)
    tag = hashlib.sha1(repr((payload.get("violation") or {}).get("kind")).encode()).hexdigest()[:6]
    path = os.path.join(OUT, "replays", "%s-%d-%s.json" % (prop, seed, tag))
    with open(path, "w") as f:
        json.dump(payload, f, indent=1, default=repr, ensure_ascii=True)
    return path


def main(prop, modname, tier, replay=None):
    t0 = time.monotonic()
    scratch.build()
    mod = importlib.import_module(modname)
    if hasattr(mod, "warm"):
        mod.warm()
    base_seed = int(os.environ.get("VERIF_SEED", "0") or 0)
    known = load_known()
    known_keys = {k["key"]: k for k in known.get("known", []) if k["property"] == prop}
    known_kinds = {k["key"]: set(k.get("kinds") or []) for k in known.get("known", []) if k["property"] == prop}

    def is_known(v):
        key = v["violation"].get("key")
        if key is None or key not in known_keys:
            return False
        kinds = known_kinds.get(key)
        return not kinds or v["violation"]["kind"].split("(")[0] in kinds

    if replay:
        return do_replay(prop, mod, tier, replay, known_keys)

    try:
        os.unlink(os.path.join(OUT, "evidence", prop + ".json"))      # a crash must not leave an old pass record
    except OSError:
        pass
    cfg = getattr(mod, "CONFIGS", {}).get(prop) or getattr(mod, "CONFIG", {})
    budget = float(os.environ.get("VERIF_BUDGET_S") or cfg.get(tier + "_budget_s", 35 if tier == "quick" else 600))
    max_runs = int(os.environ.get("VERIF_MAX_RUNS") or cfg.get(tier + "_max_runs", 10 ** 9))
    chunk = int(cfg.get("chunk", 25))
    nworkers = int(os.environ.get("VERIF_WORKERS") or min(16, os.cpu_count() or 1))

    agg = {"n": 0, "stats": collections.Counter(), "faults": collections.Counter(), "nontrivial": set(),
           "interleavings": set(), "shapes": set(), "samples": [], "violations": [], "errors": [],
           "sim_seconds": 0.0, "digests": {}, "rejected": collections.Counter(),
           "known_counts": collections.Counter()}
    next_idx = [0]

    def next_chunk():
        if next_idx[0] >= max_runs:
            return None
        n = min(chunk, max_runs - next_idx[0])
        seeds = [run_seed(base_seed, next_idx[0] + i) for i in range(n)]
        want = next_idx[0] < chunk * 2
        next_idx[0] += n
        return (modname, prop, tier, seeds, want, sorted(known_keys))

    def absorb(o):
        agg["n"] += o["n"]
        agg["stats"].update(o["stats"])
        agg["faults"].update(o["faults"])
        agg["rejected"].update(o["rejected"])
        agg["nontrivial"].update(o["nontrivial"])
        agg["interleavings"].update(o["interleavings"])
        agg["shapes"].update(o["shapes"])
        agg["sim_seconds"] += o["sim_seconds"]
        agg["samples"] = sorted(agg["samples"] + o["samples"], key=lambda s: s["seed"])[:3]
        for v in o["violations"]:
            k = v["violation"].get("key")
            if is_known(v):
                agg["known_counts"][k] += 1
                if agg["known_counts"][k] > 1:
                    continue
            agg["violations"].append(v)
        agg["errors"].extend(o["errors"])
        for k, v in o["digests"].items():
            if len(agg["digests"]) < 64:
                agg["digests"][k] = v

    harness_error = None
    ctx = multiprocessing.get_context("fork")
    try:
        with cf.ProcessPoolExecutor(max_workers=nworkers, mp_context=ctx, initializer=_worker_init) as ex:
            pending = set()
            for _ in range(nworkers * 2):
                c = next_chunk()
                if c is None:
                    break
                pending.add(ex.submit(work_chunk, c))
            stop = False
            while pending:
                done, pending = cf.wait(pending, timeout=5, return_when=cf.FIRST_COMPLETED)
                for fut in done:
                    try:
                        absorb(fut.result())
                    except cf.process.BrokenProcessPool:
                        raise
                    except BaseException as e:      # noqa
                        harness_error = harness_error or "a worker raised %r" % (e,)
                        stop = True
                nnew = len([x for x in agg["violations"] if not is_known(x)])
                if time.monotonic() - t0 > budget or nnew >= 12 or len(agg["errors"]) >= 5:
                    stop = True
                if stop:
                    for pnd in list(pending):
                        if pnd.cancel():
                            pending.discard(pnd)
                if not stop:
                    for _ in range(len(done)):
                        c = next_chunk()
                        if c is None:
                            break
                        pending.add(ex.submit(work_chunk, c))
                if time.monotonic() - t0 > budget + RUN_WALL_LIMIT * 4:
                    harness_error = "workers did not finish within the wall limit"
                    for p in pending:
                        p.cancel()
                    break
            # determinism canary: re-run the first seeds in a different process
            if agg["digests"] and not harness_error:
                seeds = sorted(agg["digests"])[:8]
                o = ex.submit(work_chunk, (modname, prop, tier, seeds, False, sorted(known_keys))).result()
                for s in seeds:
                    if o["digests"].get(s) != agg["digests"][s]:
                        harness_error = "determinism canary: seed %d gave two different histories" % s
                        break
    except cf.process.BrokenProcessPool as e:
        harness_error = "worker process died: %r" % (e,)

    # extra deterministic phases (fresh-interpreter cross-checks, real subprocess validation)
    extra = {}
    if hasattr(mod, "extra_phase") and not harness_error:
        try:
            import inspect
            if len(inspect.signature(mod.extra_phase).parameters) >= 3:
                extra = mod.extra_phase(tier, base_seed, prop) or {}
            else:
                extra = mod.extra_phase(tier, base_seed) or {}
            for v in extra.pop("violations", []):
                agg["violations"].append(v)
        except Exception:
            harness_error = "extra phase failed: " + traceback.format_exc()[-2000:]

    wall = time.monotonic() - t0
    # classify violations
    new_classes = {}
    known_hit = {}
    for v in agg["violations"]:
        key = v["violation"].get("key")
        cls = (v["violation"]["kind"], key)
        if is_known(v):
            known_hit.setdefault(key, v)
            continue
        new_classes.setdefault(cls, v)
    for key, v in sorted(known_hit.items()):
        print("KNOWN-FINDING: property=%s %s [%s] (e.g. seed %d)" % (prop, known_keys[key]["what"], key, v["seed"]))
        if os.environ.get("VERIF_WRITE_KNOWN_REPLAYS") == "1":
            write_replay(prop, v["seed"], {"property": prop, "tier": tier, "seed": v["seed"], "tape": v["tape"],
                                           "violation": v["violation"], "decoded_case": v.get("case"), "known_finding": key})
    nviol = 0
    for cls, v in sorted(new_classes.items(), key=lambda kv: repr(kv[0])):
        path = write_replay(prop, v["seed"], {"property": prop, "tier": tier, "seed": v["seed"],
                                             "tape": v["tape"], "violation": v["violation"],
                                             "decoded_case": v["case"],
                                             "minimise_runs": v.get("minimise_runs"),
                                             "orig_tape_len": v.get("orig_tape_len")})
        print("VIOLATION property=%s replay=%s" % (prop, path))
        print("  kind=%s detail=%s" % (v["violation"]["kind"], json.dumps(v["violation"]["detail"], default=repr)[:600]))
        nviol += 1
    if agg["errors"]:
        harness_error = harness_error or ("harness exception in %d run(s); first: %s" % (
            len(agg["errors"]), agg["errors"][0]["error"]))
    min_runs = cfg.get("min_runs_" + tier, 1)
    if not harness_error and agg["n"] < min_runs:
        harness_error = "only %d runs completed (minimum %d)" % (agg["n"], min_runs)
    nrej = sum(agg["rejected"].values())
    if not harness_error and nviol == 0 and agg["n"] >= 20 and nrej > 0.5 * agg["n"]:
        harness_error = "%d of %d worlds were rejected (%s): the check decided nothing" % (
            nrej, agg["n"], dict(agg["rejected"].most_common(3)))
    if not harness_error and nviol == 0 and agg["n"] >= 50 and len(agg["nontrivial"]) < 2:
        harness_error = "no non-trivial case among %d runs: the check decided nothing" % agg["n"]

    write_evidence(prop, mod, tier, base_seed, agg, wall, nviol, extra, sorted(known_hit), harness_error)
    print("%s tier=%s seed=%d runs=%d nontrivial=%d violations=%d known=%d wall=%.1fs%s" % (
        prop, tier, base_seed, agg["n"], len(agg["nontrivial"]), nviol, len(known_hit), wall,
        " HARNESS-ERROR" if harness_error else ""))
    if harness_error:
        print("HARNESS-ERROR property=%s %s" % (prop, harness_error))
        return 2 if nviol == 0 else 1
    return 1 if nviol else 0


def write_evidence(prop, mod, tier, seed, agg, wall, nviol, extra, known_hit, harness_error):
    cfg = getattr(mod, "CONFIGS", {}).get(prop) or getattr(mod, "CONFIG", {})
    n = agg["n"]
    cov = {
        "evaluations": n,
        "distinct_nontrivial": len(agg["nontrivial"]),
        "rule": cfg.get("rule", ""),
        "samples": agg["samples"][:3] or [{"note": "no sample recorded"}],
        "runs_per_hour": int(n / wall * 3600) if wall > 0 else 0,
        "seeds": {"verif_seed": seed, "first_run_seed": run_seed(seed, 0), "count": n},
        "simulated_seconds": round(agg["sim_seconds"], 3),
        "faults_fired": dict(sorted(agg["faults"].items())),
        "probes": dict(sorted(agg["stats"].items())),
        "rejected_worlds": dict(sorted(agg["rejected"].items())),
        "distinct_interleavings": len(agg["interleavings"]),
        "distinct_history_shapes": len(agg["shapes"]),
        "components": cfg.get("components", {}),
        "known_findings_hit": {k: agg["known_counts"].get(k, 0) for k in known_hit},
        "repo_state": repo_state(),
        "engine_digest": engine_digest(),
        "exhaustive": False,
    }
    if extra:
        cov["extra_observations"] = extra
    if harness_error:
        cov["harness_error"] = harness_error
    ev = {
        "property_id": prop, "tier": tier, "seed": seed,
        "level": cfg.get("level", "exploration"),
        "coverage": cov,
        "assumptions": cfg.get("assumptions", []),
        "wall_s": round(wall, 2),
        "violations": nviol,
    }
    os.makedirs(os.path.join(OUT, "evidence"), exist_ok=True)
    path = os.path.join(OUT, "evidence", prop + ".json")
    tmp = path + ".tmp%d" % os.getpid()
    with open(tmp, "w") as f:
        json.dump(ev, f, indent=1, default=repr, ensure_ascii=True)
    os.replace(tmp, path)


def do_replay(prop, mod, tier, path, known_keys):
    try:
        with open(path) as f:
            rp = json.load(f)
        rp["violation"]["kind"], rp["tape"]
    except Exception as e:
        print("HARNESS-ERROR property=%s cannot read replay file %s: %r" % (prop, path, e))
        return 2
    if rp.get("property") and rp["property"] != prop:
        print("HARNESS-ERROR property=%s replay file %s belongs to property %s" % (prop, path, rp["property"]))
        return 2
    if not rp["tape"] and rp["violation"].get("kind", "").endswith(("hash_seed", "interpreters", "simulation")):
        print("this violation was found by a cross-process phase (fresh interpreters / real subprocesses); it has no tape: "
              "re-run the check to repeat that phase")
        return 3
    tier = rp.get("tier", tier)
    if rp.get("engine_digest") and rp["engine_digest"] != engine_digest():
        print("note: this replay file was written by another version of the simulator (engine %s, now %s); a tape is "
              "positional, so it may decode to a different world" % (rp["engine_digest"], engine_digest()))
    want = (rp["violation"]["kind"], rp["violation"].get("key"))
    res = _run_guarded(mod, Tape(feed=rp["tape"]), tier, prop)
    got = _viol_classes(res, prop)
    print("replay %s: recorded class %r; this run produced %r" % (path, want, sorted(got, key=repr)))
    if want in got:
        for v in res.violations:
            if v.prop == prop and (v.kind, v.key) == want:
                print("  detail=%s" % json.dumps(v.detail, default=repr)[:1500])
                break
        kk = known_keys.get(want[1]) if want[1] is not None else None
        if kk is not None and (not kk.get("kinds") or want[0].split("(")[0] in kk["kinds"]):
            print("KNOWN-FINDING: property=%s %s [%s]" % (prop, kk["what"], want[1]))
            return 0
        print("VIOLATION property=%s replay=%s" % (prop, path))
        return 1
    print("replay did not reproduce the recorded violation")
    return 3


def repo_state():
    import subprocess
    try:
        head = subprocess.run(["git", "-C", scratch.REPO, "rev-parse", "--short", "HEAD"], capture_output=True, text=True, timeout=20).stdout.strip()
        dirty = bool(subprocess.run(["git", "-C", scratch.REPO, "status", "--porcelain", "--untracked-files=no", "--", "*.py"],
                                    capture_output=True, text=True, timeout=20).stdout.strip())
        return {"head": head, "python_sources_modified": dirty}
    except Exception:
        return {"head": None}
