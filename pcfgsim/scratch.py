"""Scratch copy of /repo's working tree and per-worker scratch disk.

Every check invocation copies the Python sources of the repository's *current
working tree* to a fresh directory on tmpfs and imports the repository from
there.  The tools locate ``Rules/`` and ``<session>.sav`` relative to their
module ``__file__``; each worker process points those at its own directory, so
nothing is ever written under /repo and workers never share files.
"""

import atexit
import os
import shutil
import sys
import tempfile
import warnings

REPO = os.environ.get("PCFG_REPO", "/repo")

_state = {"root": None, "owner": None, "code": None, "wroot": None}

TOOL_MODULES = ("pcfg_guesser", "trainer", "prince_ling", "edit_rules", "password_scorer")


def _base_tmp():
    for cand in ("/dev/shm", os.environ.get("TMPDIR") or "", tempfile.gettempdir()):
        if cand and os.path.isdir(cand) and os.access(cand, os.W_OK):
            return cand
    return tempfile.gettempdir()


def _sweep_stale(base, max_age_s=6 * 3600):
    """scratch roots of killed runs (older than a few hours) are removed"""
    import time
    try:
        for fn in os.listdir(base):
            if fn.startswith(("pcfgsim.", "pcfgmut.", "pcfgseed.", "pcfgregen.")):
                p = os.path.join(base, fn)
                try:
                    if time.time() - os.path.getmtime(p) > max_age_s:
                        shutil.rmtree(p, ignore_errors=True)
                except OSError:
                    pass
    except OSError:
        pass


def build():
    """Copy REPO's *.py (working tree) to scratch and put it on sys.path.
    Must be called once in the parent before workers are forked."""
    if _state["root"]:
        return _state["code"]
    _sweep_stale(_base_tmp())
    root = tempfile.mkdtemp(prefix="pcfgsim.", dir=_base_tmp())
    code = os.path.join(root, "repo")
    for dirpath, dirnames, filenames in os.walk(REPO):
        rel = os.path.relpath(dirpath, REPO)
        parts = rel.split(os.sep)
        if parts[0] in (".git", "Rules", "docs", "__pycache__") or "__pycache__" in parts \
                or "unit_tests" in parts:
            dirnames[:] = []
            continue
        dirnames[:] = sorted(d for d in dirnames if d not in (".git", "Rules", "docs", "__pycache__"))
        for fn in sorted(filenames):
            if fn.endswith(".py"):
                dst = os.path.join(code, rel)
                os.makedirs(dst, exist_ok=True)
                shutil.copyfile(os.path.join(dirpath, fn), os.path.join(dst, fn))
    _state.update(root=root, owner=os.getpid(), code=code)
    sys.path.insert(0, code)
    sys.dont_write_bytecode = True
    warnings.filterwarnings("ignore", category=SyntaxWarning)
    atexit.register(cleanup)
    return code


def attach(root, code, wroot):
    """a child interpreter joins an existing scratch copy (it never owns or removes it)"""
    _state.update(root=root, owner=-1, code=code, wroot=wroot, wpid=os.getpid())
    if code not in sys.path:
        sys.path.insert(0, code)
    sys.dont_write_bytecode = True
    warnings.filterwarnings("ignore", category=SyntaxWarning)
    return code


def cleanup():
    if _state["root"] and _state["owner"] == os.getpid():
        shutil.rmtree(_state["root"], ignore_errors=True)
        _state["root"] = None


def code_dir():
    return _state["code"]


def worker_root():
    """This process's private 'installation directory' (Rules/, *.sav)."""
    wr = _state["wroot"]
    if wr is None or _state.get("wpid") != os.getpid():
        wr = os.path.join(_state["root"], "w%d" % os.getpid())
        _state["wroot"] = wr
        _state["wpid"] = os.getpid()
    return wr


INSTALL_PLACES = ["", "", "", ".saved", " (copy)", ".sav", ".omn.d", "-v4.7"]


def draw_place(t):
    """where the tools are installed for this run: the directory name may hold dots, blanks and the extensions the tools
    use for their own files (cracking.saved/, backup.sav/)"""
    return t.choice(INSTALL_PLACES)


def fresh_disk(place=""):
    """Wipe and recreate the worker's scratch disk; returns its root.  `place` is appended to the directory name."""
    base = os.path.join(_state["root"], "w%d" % os.getpid())
    for suffix in set(INSTALL_PLACES) | {place}:
        shutil.rmtree(base + suffix, ignore_errors=True)
    wr = base + place
    _state["wroot"] = wr
    _state["wpid"] = os.getpid()
    os.makedirs(os.path.join(wr, "Rules"))
    return wr


def point_tools_at(wr, modules=TOOL_MODULES):
    """Make the tool modules believe they are installed in wr."""
    import importlib
    out = {}
    for name in modules:
        mod = importlib.import_module(name)
        mod.__file__ = os.path.join(wr, name + ".py")
        out[name] = mod
    return out


def rules_dir(name="R"):
    return os.path.join(worker_root(), "Rules", name)


def child_env(**kw):
    """environment of a real tool process: the sandbox's own PYTHONUNBUFFERED is not what a user's shell has, and with
    it a pipe on stdout is never block-buffered (so nothing could be lost in a buffer)"""
    env = {k: v for k, v in os.environ.items() if k != "PYTHONUNBUFFERED"}
    env.update(kw)
    return env
