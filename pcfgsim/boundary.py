"""Rulesets whose Grammar/grammar.txt is built from fixed-width 16-byte lines, so that the text sits exactly on (or a chosen
number of characters off) a multiple of 64 KiB: block sizes, read hints and remainder arithmetic of readers and writers
live at those offsets and at no other.  The files are ordinary rulesets; only their size is directed.

  line           = <4 tokens of letter+digit: 8 characters> TAB 0.0002 LF   = 16 bytes
  4 096 lines    = 65 536 bytes
"""
import os

from . import worlds

LETTERS = "ADOK"
BLOCK = 65536
LINE = 16


def _value(letter, n):
    return {"A": "a", "D": "1", "O": "!", "K": "q"}[letter] * n


def variables():
    v = {}
    for letter in LETTERS:
        for n in range(1, 10):
            v["%s%d" % (letter, n)] = [["1.0", [_value(letter, n)]]]
    for n in range(1, 10):
        v["C%d" % n] = [["1.0", ["L" * n]]]
    return v


def structures(t, count, want_length, hi=9):
    """`count` distinct 4-token structures (alpha tokens carry their mask token in the file the guesser reads? no: the
    base-structure file names A<n> only, the loader adds the C<n>), each with doc length satisfying want_length(L)"""
    out = []
    seen = set()
    guard = 0
    while len(out) < count:
        guard += 1
        if guard > count * 200:
            raise RuntimeError("cannot draw %d structures" % count)
        toks = [(LETTERS[t.draw(4)], 1 + t.draw(hi)) for _ in range(4)]
        if any(a[0] == "A" and b[0] == "A" for a, b in zip(toks, toks[1:])) and t.chance(1, 2):
            continue
        s = "".join("%s%d" % x for x in toks)
        if s in seen or not want_length(sum(n for _, n in toks)):
            continue
        seen.add(s)
        out.append(s)
    return out


def write(rdir, lines, uuid="00000000-0000-4000-8000-00000000b0b0"):
    """a complete ruleset directory whose grammar.txt is exactly "".join(lines)"""
    first = lines[0].rstrip("\n").split("\t")
    spec = {"kind": "syn", "pool": "boundary", "encoding": "utf-8", "uuid": uuid, "vars": variables(),
            "base": [[first[0], first[1]]], "omen": worlds.TRIVIAL_OMEN, "omen_prob": [["0", "1.0"]], "omen_keyspace": None}
    worlds.write_ruleset(spec, rdir)
    data = "".join(lines).encode("ascii")
    for name in ("grammar.txt", "raw_grammar.txt"):
        with open(os.path.join(rdir, "Grammar", name), "wb") as f:
            f.write(data)
    return data


def rewrite_grammar(rdir, lines):
    data = "".join(lines).encode("ascii")
    for name in ("grammar.txt", "raw_grammar.txt"):
        with open(os.path.join(rdir, "Grammar", name), "wb") as f:
            f.write(data)
    return data


def c14_job(seed, blocks):
    """--skip_brute on a ruleset whose Markov line starts 16 ... 1 characters before a multiple of 64 KiB (every one of
    the sixteen positions): the loaded base structures against the reference restriction"""
    from . import guesser, scratch
    from .refmodel import RefRuleset, ulps_close
    from .tape import Tape
    from lib_guesser.grammar_io import load_grammar as g_load
    t = Tape(seed=seed)
    wr = scratch.fresh_disk()
    rdir = os.path.join(wr, "Rules", "B")
    n_before = blocks * BLOCK // LINE - 1
    S = structures(t, n_before + 40, lambda L: True)
    out = {"loads": 0, "problem": None, "blocks": blocks}
    write(rdir, ["%s\t0.0002\n" % S[0]])
    for shift in range(LINE):
        mp = t.choice(["0.000278942019648", "0.25", "0.0625", "3.999999999998545e-05", "0.4", "0.18105423"])
        lines = ["%s\t0.0002\n" % s for s in S[:n_before]]
        k = t.draw(n_before)
        lines[k] = "%s\t0.0002%s\n" % (S[k], "0" * shift)
        m_start = sum(len(x) for x in lines)
        assert m_start == blocks * BLOCK - LINE + shift
        lines.append("M\t%s\n" % mp)
        lines += ["%s\t0.0002\n" % s for s in S[n_before:]]
        if t.chance(1, 4):
            lines[-1] = lines[-1].rstrip("\n")          # (a hand-edited file: no line end after the last structure)
        rewrite_grammar(rdir, lines)
        for skip_brute in (True, False):
            ref = RefRuleset(rdir, skip_brute=skip_brute)
            want = [(list(b["replacements"]), b["prob"]) for b in ref.base]
            try:
                with guesser.streams():
                    _g, base, _info = g_load("B", rdir, "4.7", skip_brute, False, "Grammar")
            except Exception:
                import traceback
                out["problem"] = ("guesser_loader_failed", {"exception": traceback.format_exc()[-500:], "markov_line_starts_at": m_start,
                                                            "skip_brute": skip_brute, "markov_line": lines[n_before]})
                return out
            out["loads"] += 1
            got = [(list(b["replacements"]), b["prob"]) for b in base]
            bad = None
            if len(got) != len(want):
                bad = {"structures_loaded": len(got), "expected": len(want)}
            else:
                for i, ((ra, pa), (rb, pb)) in enumerate(zip(got, want)):
                    if ra != rb or not ulps_close(pa, pb, 4):
                        bad = {"index": i, "loaded": repr((ra, pa)), "expected": repr((rb, pb))}
                        break
            if bad:
                out["problem"] = ("restriction_differs_at_a_block_boundary" if skip_brute else "base_structures_differ_at_a_block_boundary",
                                  dict(bad, markov_line_starts_at=m_start, markov_line=lines[n_before].strip(), skip_brute=skip_brute,
                                       p_markov_reference=ref.p_markov))
                return out
    return out


def c14_phase(tier, base_seed):
    from . import bigworld
    out = {"block_boundary_rulesets": 0, "block_boundary_loads": 0, "violations": []}
    jobs = [(base_seed * 4801 + 17 + b, b) for b in ((1,) if tier == "quick" else (1, 2, 3, 1))]
    for r in bigworld._fan_out(c14_job, jobs):
        out["block_boundary_rulesets"] += 1
        out["block_boundary_loads"] += r["loads"]
        if r["problem"]:
            out["violations"].append({"seed": base_seed, "tape": [], "violation": {
                "property": "C14", "kind": "block_boundary:" + r["problem"][0], "key": None, "detail": r["problem"][1]}, "case": None})
    return out


def c20_job(seed, blocks, off):
    """edit_rules --min_length 8 on a ruleset of which exactly blocks * 4 096 + off structures (16 bytes each) survive:
    the text written back is blocks * 64 KiB + 16 * off characters"""
    from . import scratch
    from .tape import Tape
    from .checks import tools
    t = Tape(seed=seed)
    wr = scratch.fresh_disk()
    keep_n = blocks * BLOCK // LINE + off
    keep = structures(t, keep_n, lambda L: L >= 8)
    drop = structures(t, t.between(0, 120), lambda L: L < 8, hi=2)
    lines = t.shuffle(["%s\t0.0002\n" % s for s in keep + drop])
    rdir = os.path.join(wr, "Rules", "B")
    orig = write(rdir, lines)
    args = ["-r", "B", "--min_length", "8"]
    copy = t.chance(1, 3)
    if copy:
        args += ["--copy", "B2"]
    opt = {"min": 8, "max": 0, "terminals": None, "regex": None}
    before = tools.tree_snapshot(os.path.join(wr, "Rules"))
    _text, exc = tools.run_tool("edit_rules", args)
    out = {"problem": None, "survivors": keep_n, "survivor_characters": keep_n * LINE}
    if exc:
        out["problem"] = ("raised", {"exception": exc[-600:], "args": args})
        return out
    want = tools.expected_grammar(orig, opt)
    assert len(want) == keep_n * LINE
    target = "B2" if copy else "B"
    try:
        got = open(os.path.join(wr, "Rules", target, "Grammar", "grammar.txt"), "rb").read()
    except OSError:
        out["problem"] = ("edited_grammar_missing", {"args": args})
        return out
    if got != want:
        gl, wl = got.decode("ascii", "replace").split("\n"), want.decode("ascii").split("\n")
        out["problem"] = ("grammar_not_original_minus_failing", {
            "args": args, "survivor_characters": len(want), "written_characters": len(got), "lines_written": len(gl) - 1,
            "lines_expected": len(wl) - 1, "same_lines_as_a_set": set(gl) == set(wl)})
        return out
    after = tools.tree_snapshot(os.path.join(wr, "Rules"))
    changed = sorted(k for k in before if before[k] != after.get(k) and k != os.path.join(target, "Grammar", "grammar.txt"))
    if changed:
        out["problem"] = ("other_file_changed", {"files": changed[:4], "args": args})
    return out


def c20_phase(tier, base_seed):
    from . import bigworld
    out = {"block_boundary_edits": 0, "violations": []}
    cases = [(1, 0), (2, 0), (1, -1), (1, 1)] if tier == "quick" else [(b, o) for b in (1, 2, 3, 4) for o in (0, -1, 1)]
    jobs = [(base_seed * 5303 + 29 + i, b, o) for i, (b, o) in enumerate(cases)]
    for r in bigworld._fan_out(c20_job, jobs):
        out["block_boundary_edits"] += 1
        if r["problem"]:
            out["violations"].append({"seed": base_seed, "tape": [], "violation": {
                "property": "C20", "kind": "block_boundary:" + r["problem"][0], "key": None,
                "detail": dict(r["problem"][1], survivors=r["survivors"])}, "case": None})
    return out
