"""Choice tape: the single source of every decision in a simulated run.

A run is a pure function of (tape, code).  In generation mode the tape is
filled on demand from ``random.Random(seed)``; every draw is recorded.  In
replay mode the recorded values are fed back (clamped to the requested range,
0 once the recording is exhausted) so that a shortened or edited tape is still
a valid run -- that is what the minimiser relies on.
"""

import random


class Tape:
    __slots__ = ("rng", "rec", "feed", "pos", "seed", "labels")

    def __init__(self, seed=None, feed=None):
        self.seed = seed
        self.rng = random.Random(seed) if feed is None else None
        self.feed = list(feed) if feed is not None else None
        self.rec = []
        self.pos = 0
        self.labels = []

    # -- primitive -------------------------------------------------------
    def draw(self, n, label=None):
        """uniform integer in [0, n); n >= 1.  Smaller is simpler."""
        if n <= 1:
            v = 0
            # still consume a slot so tapes stay aligned when ranges change
            if self.feed is not None:
                self.pos += 1
            self.rec.append(0)
            return 0
        if self.feed is None:
            v = self.rng.randrange(n)
        else:
            if self.pos < len(self.feed):
                v = self.feed[self.pos]
                if v < 0:
                    v = 0
                if v >= n:
                    v = v % n
            else:
                v = 0
            self.pos += 1
        self.rec.append(v)
        return v

    # -- helpers -----------------------------------------------------------
    def chance(self, num, den):
        """True with probability num/den; False is the simple outcome."""
        return self.draw(den) >= den - num

    def choice(self, seq):
        return seq[self.draw(len(seq))]

    def between(self, lo, hi):
        """integer in [lo, hi] inclusive, lo is simplest"""
        return lo + self.draw(hi - lo + 1)

    def sample(self, seq, k):
        pool = list(seq)
        out = []
        for _ in range(min(k, len(pool))):
            out.append(pool.pop(self.draw(len(pool))))
        return out

    def shuffle(self, seq):
        pool = list(seq)
        out = []
        while pool:
            out.append(pool.pop(self.draw(len(pool))))
        return out

    def fork(self):
        """A sub-tape seeded from this one: one draw in the parent buys an
        independent stream (used where a component needs many draws whose
        individual values are not worth minimising)."""
        s = self.draw(1 << 30)
        return random.Random(s)


def minimise(feed, still_fails, budget_runs=200, budget_s=60.0):
    """Greedy tape minimiser.  still_fails(list[int]) -> bool.
    Returns the smallest feed found (always one that fails)."""
    import time
    t0 = time.monotonic()
    runs = [0]

    def ok(cand):
        if runs[0] >= budget_runs or time.monotonic() - t0 > budget_s:
            return False
        runs[0] += 1
        try:
            return still_fails(cand)
        except Exception:
            return False

    best = list(feed)
    # strip trailing zeros (they are implicit)
    while best and best[-1] == 0:
        best.pop()
    improved = True
    while improved and runs[0] < budget_runs and time.monotonic() - t0 <= budget_s:
        improved = False
        # 1. delete blocks
        size = max(1, len(best) // 2)
        while size >= 1:
            i = 0
            while i < len(best):
                cand = best[:i] + best[i + size:]
                if cand != best and ok(cand):
                    best = cand
                    improved = True
                else:
                    i += size
            size //= 2
        # 2. zero blocks / entries
        size = max(1, len(best) // 4)
        while size >= 1:
            i = 0
            while i < len(best):
                if any(best[i:i + size]):
                    cand = best[:i] + [0] * len(best[i:i + size]) + best[i + size:]
                    if ok(cand):
                        best = cand
                        improved = True
                i += size
            size //= 2
        # 3. lower single entries
        for i in range(len(best)):
            v = best[i]
            if v == 0:
                continue
            for nv in (v // 2, v - 1):
                if nv < v and nv >= 0:
                    cand = best[:i] + [nv] + best[i + 1:]
                    if ok(cand):
                        best = cand
                        improved = True
                        break
        while best and best[-1] == 0:
            best.pop()
    return best, runs[0]
